// Package sym is a bounded symbolic executor for Go SSA (golang.org/x/tools/go/ssa)
// with an SMT solver as the deciding step. See /verif/DESIGN.md.
package sym

import (
	"fmt"
	"math/big"
	"strings"
)

// SortKind enumerates SMT sorts used by the engine.
type SortKind int

const (
	SBool SortKind = iota
	SBV
	SInt
	SReal
)

// Sort is an SMT sort.
type Sort struct {
	K SortKind
	W int // bit width for SBV
}

func (s Sort) String() string {
	switch s.K {
	case SBool:
		return "Bool"
	case SBV:
		return fmt.Sprintf("(_ BitVec %d)", s.W)
	case SInt:
		return "Int"
	case SReal:
		return "Real"
	}
	return "?"
}

var (
	BoolSort = Sort{K: SBool}
	IntSort  = Sort{K: SInt}
	RealSort = Sort{K: SReal}
)

func BV(w int) Sort { return Sort{K: SBV, W: w} }

// Term is an SMT-LIB term (text) with its sort. Terms are immutable.
type Term struct {
	S    string
	Sort Sort
}

func (t *Term) String() string { return t.S }

// TermCtx names large terms so that shared sub-terms do not blow up textually.
// Definitions are global in the solver (:global-declarations true).
type TermCtx struct {
	defs     []string          // pending + sent definitions / declarations, in order
	byBody   map[string]*Term  // body -> named term
	declared map[string]Sort   // declared constants
	n        int
	Threshold int
	// digitOf: BV terms known to be ASCII digit characters, with the Int term of
	// their digit value (0..9). Lets the engine avoid BV<->Int round trips.
	digitOf map[string]*Term
}

// MarkDigit records that the BV term t is the character '0'+d.
func (c *TermCtx) MarkDigit(t *Term, d *Term) {
	if c.digitOf == nil {
		c.digitOf = map[string]*Term{}
	}
	c.digitOf[t.S] = d
}

// DigitOf returns the digit value term if t is a known ASCII digit character.
func (c *TermCtx) DigitOf(t *Term) (*Term, bool) {
	d, ok := c.digitOf[t.S]
	return d, ok
}

func NewTermCtx() *TermCtx {
	return &TermCtx{byBody: map[string]*Term{}, declared: map[string]Sort{}, Threshold: 160}
}

// Declare declares (once) a constant of the given sort.
func (c *TermCtx) Declare(name string, s Sort) *Term {
	if old, ok := c.declared[name]; ok {
		if old != s {
			panic(fmt.Sprintf("symbolic input %q redeclared with different sort (%v vs %v)", name, old, s))
		}
		return &Term{S: name, Sort: s}
	}
	c.declared[name] = s
	c.defs = append(c.defs, fmt.Sprintf("(declare-const %s %s)", name, s))
	return &Term{S: name, Sort: s}
}

func (c *TermCtx) share(t *Term) *Term {
	if len(t.S) <= c.Threshold {
		return t
	}
	if n, ok := c.byBody[t.S]; ok {
		return n
	}
	c.n++
	name := fmt.Sprintf("t!%d", c.n)
	c.defs = append(c.defs, fmt.Sprintf("(define-fun %s () %s %s)", name, t.Sort, t.S))
	nt := &Term{S: name, Sort: t.Sort}
	c.byBody[t.S] = nt
	return nt
}

// App builds (op args...) of the given sort.
func (c *TermCtx) App(s Sort, op string, args ...*Term) *Term {
	var b strings.Builder
	b.WriteByte('(')
	b.WriteString(op)
	for _, a := range args {
		b.WriteByte(' ')
		b.WriteString(a.S)
	}
	b.WriteByte(')')
	return c.share(&Term{S: b.String(), Sort: s})
}

var (
	TrueT  = &Term{S: "true", Sort: BoolSort}
	FalseT = &Term{S: "false", Sort: BoolSort}
)

func BoolConst(b bool) *Term {
	if b {
		return TrueT
	}
	return FalseT
}

// BVConst returns the w-bit constant with the (two's complement) bits of v.
func BVConst(v int64, w int) *Term {
	u := uint64(v)
	if w < 64 {
		u &= (uint64(1) << uint(w)) - 1
	}
	if w%4 == 0 {
		return &Term{S: fmt.Sprintf("#x%0*x", w/4, u), Sort: BV(w)}
	}
	return &Term{S: fmt.Sprintf("#b%0*b", w, u), Sort: BV(w)}
}

func IntConst(v int64) *Term {
	if v < 0 {
		if v == -v { // MinInt64
			return &Term{S: "(- 9223372036854775808)", Sort: IntSort}
		}
		return &Term{S: fmt.Sprintf("(- %d)", -v), Sort: IntSort}
	}
	return &Term{S: fmt.Sprintf("%d", v), Sort: IntSort}
}

func IntConstBig(v *big.Int) *Term {
	if v.Sign() < 0 {
		return &Term{S: "(- " + new(big.Int).Neg(v).String() + ")", Sort: IntSort}
	}
	return &Term{S: v.String(), Sort: IntSort}
}

// RealConstRat returns the exact rational constant.
func RealConstRat(r *big.Rat) *Term {
	num, den := r.Num(), r.Denom()
	neg := num.Sign() < 0
	an := new(big.Int).Abs(num)
	var s string
	if den.Cmp(big.NewInt(1)) == 0 {
		s = an.String() + ".0"
	} else {
		s = "(/ " + an.String() + ".0 " + den.String() + ".0)"
	}
	if neg {
		s = "(- " + s + ")"
	}
	return &Term{S: s, Sort: RealSort}
}

func (c *TermCtx) Not(a *Term) *Term {
	switch a.S {
	case "true":
		return FalseT
	case "false":
		return TrueT
	}
	if strings.HasPrefix(a.S, "(not ") {
		return &Term{S: a.S[5 : len(a.S)-1], Sort: BoolSort}
	}
	return c.App(BoolSort, "not", a)
}

func (c *TermCtx) And(a, b *Term) *Term {
	if a.S == "true" {
		return b
	}
	if b.S == "true" {
		return a
	}
	if a.S == "false" || b.S == "false" {
		return FalseT
	}
	return c.App(BoolSort, "and", a, b)
}

func (c *TermCtx) Or(a, b *Term) *Term {
	if a.S == "false" {
		return b
	}
	if b.S == "false" {
		return a
	}
	if a.S == "true" || b.S == "true" {
		return TrueT
	}
	return c.App(BoolSort, "or", a, b)
}

func (c *TermCtx) Ite(cond, a, b *Term) *Term {
	if cond.S == "true" {
		return a
	}
	if cond.S == "false" {
		return b
	}
	if a.S == b.S {
		return a
	}
	return c.App(a.Sort, "ite", cond, a, b)
}

func (c *TermCtx) Eq(a, b *Term) *Term {
	if a.S == b.S {
		return TrueT
	}
	if a.Sort != b.Sort {
		panic(fmt.Sprintf("Eq: sort mismatch %v vs %v (%s, %s)", a.Sort, b.Sort, a.S, b.S))
	}
	return c.App(BoolSort, "=", a, b)
}

// isConstBV reports whether t is a literal bit-vector and returns its value.
func isConstBV(t *Term) (uint64, bool) {
	if strings.HasPrefix(t.S, "#x") {
		var u uint64
		if _, err := fmt.Sscanf(t.S[2:], "%x", &u); err == nil {
			return u, true
		}
	}
	if strings.HasPrefix(t.S, "#b") {
		var u uint64
		if _, err := fmt.Sscanf(t.S[2:], "%b", &u); err == nil {
			return u, true
		}
	}
	return 0, false
}
