package sym

import (
	"fmt"
	"math/big"
	"strings"
)

// evalSexpRat evaluates a constant numeric s-expression (as printed by
// get-value) to an exact rational.
func evalSexpRat(e *sexp) (*big.Rat, error) {
	if e.list == nil {
		a := e.atom
		switch {
		case strings.HasPrefix(a, "#x"):
			n := new(big.Int)
			if _, ok := n.SetString(a[2:], 16); !ok {
				return nil, fmt.Errorf("bad hex %q", a)
			}
			return new(big.Rat).SetInt(n), nil
		case strings.HasPrefix(a, "#b"):
			n := new(big.Int)
			if _, ok := n.SetString(a[2:], 2); !ok {
				return nil, fmt.Errorf("bad bin %q", a)
			}
			return new(big.Rat).SetInt(n), nil
		case a == "true":
			return big.NewRat(1, 1), nil
		case a == "false":
			return big.NewRat(0, 1), nil
		}
		a = strings.TrimSuffix(a, "?")
		r := new(big.Rat)
		if _, ok := r.SetString(a); !ok {
			return nil, fmt.Errorf("bad number %q", a)
		}
		return r, nil
	}
	if len(e.list) == 0 {
		return nil, fmt.Errorf("empty list")
	}
	op := e.list[0].atom
	var args []*big.Rat
	for _, c := range e.list[1:] {
		r, err := evalSexpRat(c)
		if err != nil {
			return nil, err
		}
		args = append(args, r)
	}
	switch op {
	case "-":
		if len(args) == 1 {
			return new(big.Rat).Neg(args[0]), nil
		}
		r := new(big.Rat).Set(args[0])
		for _, a := range args[1:] {
			r.Sub(r, a)
		}
		return r, nil
	case "+":
		r := new(big.Rat)
		for _, a := range args {
			r.Add(r, a)
		}
		return r, nil
	case "*":
		r := big.NewRat(1, 1)
		for _, a := range args {
			r.Mul(r, a)
		}
		return r, nil
	case "/":
		if len(args) != 2 || args[1].Sign() == 0 {
			return nil, fmt.Errorf("bad division")
		}
		return new(big.Rat).Quo(args[0], args[1]), nil
	case "_":
		// (_ bv5 8)
		if len(e.list) == 3 && strings.HasPrefix(e.list[1].atom, "bv") {
			n := new(big.Int)
			n.SetString(e.list[1].atom[2:], 10)
			return new(big.Rat).SetInt(n), nil
		}
	case "to_real", "to_int":
		if len(args) == 1 {
			return args[0], nil
		}
	}
	return nil, fmt.Errorf("cannot evaluate %s", e.String())
}

func parseRatValue(s string) (*big.Rat, error) {
	e, _ := parseSexp(s, 0)
	if e == nil {
		return nil, fmt.Errorf("empty value")
	}
	return evalSexpRat(e)
}

// parseIntValue parses a model value of an integer-like term. BV values of
// width 32/64 are sign-extended, narrower ones zero-extended.
func parseIntValue(s string, sort Sort) (int64, error) {
	r, err := parseRatValue(s)
	if err != nil {
		return 0, err
	}
	if !r.IsInt() {
		return 0, fmt.Errorf("non-integer model value %s", s)
	}
	n := r.Num()
	if sort.K == SBV {
		u := n.Uint64()
		switch sort.W {
		case 32:
			return int64(int32(uint32(u))), nil
		default:
			return int64(u), nil
		}
	}
	if !n.IsInt64() {
		return 0, fmt.Errorf("model value %s out of int64 range", s)
	}
	return n.Int64(), nil
}

// ratDecimalString renders a rational with finite decimal expansion exactly,
// canonical (no trailing zeros), like decimal.Decimal.String().
func ratDecimalString(r *big.Rat) string {
	if r.IsInt() {
		return r.Num().String()
	}
	den := new(big.Int).Set(r.Denom())
	// find k with den | 10^k
	k := 0
	ten := big.NewInt(10)
	p := big.NewInt(1)
	for k < 64 {
		if new(big.Int).Mod(p, den).Sign() == 0 {
			break
		}
		p.Mul(p, ten)
		k++
	}
	if k == 64 {
		return r.String() // not a finite decimal
	}
	scaled := new(big.Int).Mul(r.Num(), new(big.Int).Quo(p, den))
	neg := scaled.Sign() < 0
	scaled.Abs(scaled)
	s := scaled.String()
	for len(s) <= k {
		s = "0" + s
	}
	ip, fp := s[:len(s)-k], s[len(s)-k:]
	fp = strings.TrimRight(fp, "0")
	out := ip
	if fp != "" {
		out += "." + fp
	}
	if neg {
		out = "-" + out
	}
	return out
}

// normalizeModelValue converts a raw solver value to the canonical text used
// in model.json for the given input kind.
func normalizeModelValue(raw string, inp Input) string {
	r, err := parseRatValue(raw)
	if err != nil {
		return "?" + raw
	}
	switch inp.Kind {
	case "bool":
		if r.Sign() != 0 {
			return "true"
		}
		return "false"
	case "decimal":
		// input term is the integer coefficient; value = coef / 10^scale
		den := new(big.Int).Exp(big.NewInt(10), big.NewInt(int64(inp.Aux)), nil)
		v := new(big.Rat).Quo(r, new(big.Rat).SetInt(den))
		return ratDecimalString(v)
	case "day":
		y, m, d := civilFromDays(r.Num().Int64())
		return fmt.Sprintf("%04d-%02d-%02d", y, m, d)
	case "int32":
		return fmt.Sprint(int32(uint32(r.Num().Uint64())))
	case "int64":
		return fmt.Sprint(int64(r.Num().Uint64()))
	}
	return r.Num().String()
}

// ---- observations ----

type obsPart struct {
	s    string
	t    *Term
	kind string // "int", "sint32", "sint64", "bool", "dec", "decs", "day", "byte"
	aux  int64
}

func lit(s string) obsPart { return obsPart{s: s} }

// flattenObs renders an observed value into literal text and terms whose model
// values complete the text.
func (in *Interp) flattenObs(v value) []obsPart {
	switch v := v.(type) {
	case nil:
		return []obsPart{lit("<nil>")}
	case iface:
		if v.t == nil {
			return []obsPart{lit("<nil>")}
		}
		return in.flattenObs(v.v)
	case bool:
		return []obsPart{lit(fmt.Sprint(v))}
	case int64:
		return []obsPart{lit(fmt.Sprint(v))}
	case float64:
		return []obsPart{lit(fmt.Sprint(v))}
	case string:
		return []obsPart{lit(fmt.Sprintf("b\"%x\"", v))}
	case *SymStr:
		out := []obsPart{lit("b\"")}
		for _, e := range v.E {
			switch e := e.(type) {
			case int64:
				out = append(out, lit(fmt.Sprintf("%02x", e)))
			case *Sym:
				out = append(out, obsPart{t: e.T, kind: "byte"})
			case *Tok:
				out = append(out, lit("<tok>"))
			}
		}
		return append(out, lit("\""))
	case *Sym:
		switch v.T.Sort.K {
		case SBool:
			return []obsPart{{t: v.T, kind: "bool"}}
		case SBV:
			if v.T.Sort.W == 32 {
				return []obsPart{{t: v.T, kind: "sint32"}}
			}
			if v.T.Sort.W == 64 {
				return []obsPart{{t: v.T, kind: "sint64"}}
			}
			return []obsPart{{t: v.T, kind: "int"}}
		default:
			return []obsPart{{t: v.T, kind: "int"}}
		}
	case Dec:
		if !v.isSym() {
			return []obsPart{lit(v.C.String())}
		}
		if v.I != nil {
			return []obsPart{{t: v.I, kind: "decs", aux: v.S}}
		}
		return []obsPart{{t: v.T, kind: "dec"}}
	case Tm:
		if v.T == nil {
			y, m, d := civilFromDays(v.C)
			return []obsPart{lit(fmt.Sprintf("%04d-%02d-%02d", y, m, d))}
		}
		return []obsPart{{t: v.T, kind: "day"}}
	case []value:
		out := []obsPart{lit("[")}
		for i, e := range v {
			if i > 0 {
				out = append(out, lit(" "))
			}
			out = append(out, in.flattenObs(e)...)
		}
		return append(out, lit("]"))
	case structure:
		out := []obsPart{lit("{")}
		for i, e := range v {
			if i > 0 {
				out = append(out, lit(" "))
			}
			out = append(out, in.flattenObs(e)...)
		}
		return append(out, lit("}"))
	case array:
		return in.flattenObs([]value(v))
	}
	return []obsPart{lit(fmt.Sprintf("<%T>", v))}
}

func renderObsValue(raw string, p obsPart) string {
	r, err := parseRatValue(raw)
	if err != nil {
		return "?" + raw
	}
	switch p.kind {
	case "bool":
		if r.Sign() != 0 {
			return "true"
		}
		return "false"
	case "dec":
		return ratDecimalString(r)
	case "decs":
		return ratDecimalString(new(big.Rat).Mul(r, pow10Rat(-p.aux)))
	case "day":
		y, m, d := civilFromDays(r.Num().Int64())
		return fmt.Sprintf("%04d-%02d-%02d", y, m, d)
	case "sint32":
		return fmt.Sprint(int32(uint32(r.Num().Uint64())))
	case "sint64":
		return fmt.Sprint(int64(r.Num().Uint64()))
	case "byte":
		return fmt.Sprintf("%02x", r.Num().Uint64())
	}
	return r.Num().String()
}
