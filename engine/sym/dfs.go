package sym

import (
	"fmt"
	"go/token"
	"sort"
	"strings"
	"time"

	"golang.org/x/tools/go/ssa"
)

type decKind byte

const (
	dBranch decKind = iota
	dAssume
	dOblig
	dConc
	dChoice
)

type decision struct {
	kind   decKind
	cond   string // text of the condition (determinism check)
	term   *Term
	taken  bool
	hasAlt bool
	pushed bool
	val    int64 // dConc: the value tried; dChoice: the current value
	n      int64 // dChoice: number of values
}

// Input is one symbolic input of a path, in declaration order.
type Input struct {
	Name string `json:"name"`
	Kind string `json:"kind"` // int, byte, bool, decimal, day, choice
	Term *Term  `json:"-"`
	Aux  int    `json:"aux,omitempty"` // decimal scale
	Val  string `json:"value,omitempty"`
}

// Violation is a falsified obligation (or escaped panic) with a model.
type Violation struct {
	Label   string  `json:"label"`
	Kind    string  `json:"kind"` // assert, panic, known
	Finding string  `json:"finding,omitempty"`
	Msg     string  `json:"msg,omitempty"`
	Inputs  []Input `json:"inputs"`
	Params  map[string]int `json:"params"`
	Pos     string  `json:"pos,omitempty"`
	Observed map[string]string `json:"observed,omitempty"`
}

// Witness is a completed path made concrete, for native replay.
type Witness struct {
	Inputs   []Input           `json:"inputs"`
	Params   map[string]int    `json:"params"`
	Observed map[string]string `json:"observed"`
}

type observation struct {
	label string
	parts []obsPart
}

type runState struct {
	stack    []decision
	pos      int
	inputs   []Input
	names    map[string]int
	obs      []observation
	mapOrder bool
	mapOrderMax int
	mapSite, mapSiteBudget, mapSiteHits int
	tmCivil  map[string][2]int64 // day term -> (year, month) decided on this path
	assumeN  int
	tryDepth int
	fresh    int
	fsys     *fsState
	facts    map[string]bool // conditions already decided on this path
}

func (in *Interp) setFact(t *Term, val bool) {
	r := in.run
	if r.facts == nil {
		r.facts = map[string]bool{}
	}
	r.facts[t.S] = val
	r.facts[in.TC.Not(t).S] = !val
}

// Stats of one exploration.
type Stats struct {
	Paths         int
	Completed     int
	Vacuous       int
	Infeasible    int
	Branches      int64
	Obligations   int
	Discharged    int
	TrivialOblig  int
	Violations    []Violation
	Known         []Violation
	Inconclusive  []string
	Witnesses     []Witness
	Unwind        int
	MapSiteHits   int
	Steps         int64
	Wall          time.Duration
	ObligSamples  []string
	Reached       map[string]int // assertion labels reached (reachability witness)
}

// Config for exploring one harness instance.
type Config struct {
	MaxPaths      int
	MaxViolations int
	WitnessEvery  int // sample every n-th completed path as native-replay witness (0 = none)
	MaxWitnesses  int
	KnownActive   map[string]bool // finding ids with status "known"
	Deadline      time.Time
}

type Explorer struct {
	In       *Interp
	Cfg      Config
	Stats    Stats
	unknowns int
}

func (r *runState) uniq(name string) string {
	n := r.names[name]
	r.names[name] = n + 1
	if n == 0 {
		return name
	}
	return fmt.Sprintf("%s#%d", name, n)
}

func smtName(name string) string {
	// SMT-LIB quoted symbol
	return "|" + strings.NewReplacer("|", "_", "\\", "_").Replace(name) + "|"
}

// ---------------------------------------------------------------- branching

func (in *Interp) feasible(t *Term) bool {
	if in.Solver.Dead {
		panic(pathEnd{"unknown"})
	}
	r := in.Solver.CheckFeas(t)
	if r == SolverError {
		in.noteInconclusive("solver error on feasibility query: " + in.Solver.LastError)
	}
	return r != Unsat
}

func (in *Interp) noteInconclusive(msg string) {
	if in.exp != nil {
		for _, m := range in.exp.Stats.Inconclusive {
			if m == msg {
				return
			}
		}
		if len(in.exp.Stats.Inconclusive) < 50 {
			in.exp.Stats.Inconclusive = append(in.exp.Stats.Inconclusive, msg)
		}
	}
}

func (in *Interp) nextDecision(kind decKind, cond string) *decision {
	r := in.run
	if r.pos < len(r.stack) {
		d := &r.stack[r.pos]
		if d.kind != kind || d.cond != cond {
			panic(engineError{fmt.Sprintf("non-deterministic re-execution at decision %d: recorded %d %q, now %d %q", r.pos, d.kind, d.cond, kind, cond), ""})
		}
		r.pos++
		return d
	}
	return nil
}

func (in *Interp) pushDecision(d decision) {
	in.run.stack = append(in.run.stack, d)
	in.run.pos++
}

// branch decides a symbolic condition, forking the exploration if both sides
// are feasible.
func (in *Interp) branch(cond *Term) bool {
	switch cond.S {
	case "true":
		return true
	case "false":
		return false
	}
	if in.run == nil {
		panic(unsupported{"symbolic branch outside exploration"})
	}
	if v, ok := in.run.facts[cond.S]; ok {
		return v
	}
	if d := in.nextDecision(dBranch, cond.S); d != nil {
		in.setFact(cond, d.taken)
		return d.taken
	}
	if in.exp != nil {
		in.exp.Stats.Branches++
	}
	ft := in.feasible(cond)
	ff := in.feasible(in.TC.Not(cond))
	switch {
	case ft && ff:
		in.Solver.Push()
		in.Solver.Assert(cond)
		in.pushDecision(decision{kind: dBranch, cond: cond.S, term: cond, taken: true, hasAlt: true, pushed: true})
		in.setFact(cond, true)
		return true
	case ft:
		in.pushDecision(decision{kind: dBranch, cond: cond.S, term: cond, taken: true})
		in.setFact(cond, true)
		return true
	case ff:
		in.pushDecision(decision{kind: dBranch, cond: cond.S, term: cond, taken: false})
		in.setFact(cond, false)
		return false
	}
	panic(pathEnd{"infeasible"})
}

// assume adds a constraint to the path; an infeasible assumption ends the path.
func (in *Interp) assume(cond *Term) {
	switch cond.S {
	case "true":
		return
	case "false":
		panic(pathEnd{"assume"})
	}
	if v, ok := in.run.facts[cond.S]; ok {
		if !v {
			panic(pathEnd{"assume"})
		}
		return
	}
	if d := in.nextDecision(dAssume, cond.S); d != nil {
		in.setFact(cond, true)
		return
	}
	if !in.feasible(cond) {
		panic(pathEnd{"assume"})
	}
	in.Solver.Push()
	in.Solver.Assert(cond)
	in.pushDecision(decision{kind: dAssume, cond: cond.S, term: cond, taken: true, pushed: true})
	in.setFact(cond, true)
}

// concretize enumerates the feasible values of a symbolic integer by forking.
func (in *Interp) concretize(s *Sym, what string) value {
	t := s.T
	if t.Sort.K == SBool {
		return in.branch(t)
	}
	if u, ok := isConstBV(t); ok {
		return signExtendTo64(u, t.Sort.W)
	}
	tried := 0
	for {
		key := "conc:" + t.S
		if d := in.nextDecision(dConc, key); d != nil {
			if d.taken {
				return d.val
			}
			tried++
			continue
		}
		if tried > 300 {
			panic(unsupported{"concretisation fan-out > 300 for " + what})
		}
		// ask the solver for a value
		res, vals := in.Solver.CheckModel(nil, []*Term{t})
		if res != Sat {
			if res == Unsat {
				panic(pathEnd{"infeasible"})
			}
			in.noteInconclusive("solver " + res.String() + " while concretising " + what)
			panic(pathEnd{"unknown"})
		}
		v, err := parseIntValue(vals[0], t.Sort)
		if err != nil {
			panic(engineError{"concretize: " + err.Error(), ""})
		}
		var eq *Term
		if t.Sort.K == SInt {
			eq = in.TC.Eq(t, IntConst(v))
		} else {
			eq = in.TC.Eq(t, BVConst(v, t.Sort.W))
		}
		alt := in.feasible(in.TC.Not(eq))
		if in.exp != nil {
			in.exp.Stats.Branches++
		}
		if alt {
			in.Solver.Push()
			in.Solver.Assert(eq)
			in.pushDecision(decision{kind: dConc, cond: key, term: eq, taken: true, hasAlt: true, pushed: true, val: v})
		} else {
			in.pushDecision(decision{kind: dConc, cond: key, term: eq, taken: true, val: v})
		}
		return v
	}
}

func signExtendTo64(u uint64, w int) int64 {
	if w >= 64 {
		return int64(u)
	}
	// values are kept normalised per Go type by callers; return the zero-extended pattern
	return int64(u)
}

// permute draws a permutation of idx by forking (n! paths).
func (in *Interp) permute(idx []int) []int {
	n := len(idx)
	rest := append([]int(nil), idx...)
	out := make([]int, 0, n)
	for len(rest) > 1 {
		c := in.choice("maporder", len(rest))
		out = append(out, rest[c])
		rest = append(rest[:c], rest[c+1:]...)
	}
	return append(out, rest...)
}

// choice returns a value in 0..n-1, enumerated by forking. Recorded as a
// symbolic input so that replays can reproduce it.
func (in *Interp) choice(name string, n int) int {
	if n <= 1 {
		return 0
	}
	r := in.run
	nm := r.uniq(name)
	t := in.TC.Declare(smtName(nm), IntSort)
	r.inputs = append(r.inputs, Input{Name: nm, Kind: "choice", Term: t, Aux: n})
	// a choice variable is a fresh integer constrained only to 0..n-1: every value is feasible,
	// so the values are enumerated directly (no solver query); the equality is still asserted so
	// that models of the path carry the value for replay
	key := "choice:" + nm
	if d := in.nextDecision(dChoice, key); d != nil {
		return int(d.val)
	}
	if in.exp != nil {
		in.exp.Stats.Branches++
	}
	in.Solver.Push()
	in.Solver.Assert(in.TC.Eq(t, IntConst(0)))
	in.pushDecision(decision{kind: dChoice, cond: key, term: t, taken: true, hasAlt: n > 1, pushed: true, val: 0, n: int64(n)})
	return 0
}

// ---------------------------------------------------------------- obligations

func (in *Interp) modelInputs(extra ...*Term) ([]Input, Result) {
	r := in.run
	terms := make([]*Term, len(r.inputs))
	for i, inp := range r.inputs {
		terms[i] = inp.Term
	}
	res, vals := in.Solver.CheckModel(extra, terms)
	// an obligation that is not discharged by the incremental solver is decided again from scratch
	// in fresh processes of both z3 versions (DESIGN.md §5.4): sat is kept only if a fresh solver
	// confirms it, unknown may become decided
	if res != Unsat && !(in.noFresh && res == Sat) {
		to := in.Solver.timeoutMs
		fs := &in.Solver.FreshStats
		decided := false
		for _, kind := range []string{"z3-new", "z3"} {
			fr, fvals := in.Solver.FreshCheck(kind, to, extra, terms)
			if fr == Unsat {
				if res == Sat {
					fs.SatRefuted++
				} else {
					fs.UnknownDecided++
				}
				res, vals, decided = Unsat, nil, true
				break
			}
			if fr == Sat {
				if res == Sat {
					fs.SatConfirmed++
				} else {
					fs.UnknownDecided++
				}
				res, vals, decided = Sat, fvals, true
				break
			}
		}
		if !decided {
			fs.Undecided++
			if res == Sat {
				res = Unknown // an unconfirmed sat of the incremental session is not reported as a counterexample
				in.Solver.LastError = "incremental solver answered sat; not confirmed by a fresh solver process"
			}
		}
	}
	if res != Sat {
		return nil, res
	}
	out := make([]Input, len(r.inputs))
	for i, inp := range r.inputs {
		out[i] = inp
		out[i].Val = normalizeModelValue(vals[i], inp)
	}
	return out, Sat
}

func (in *Interp) record(list *[]Violation, v Violation) {
	v.Params = map[string]int{}
	for k, x := range in.Params {
		v.Params[k] = x
	}
	*list = append(*list, v)
}

// obligation checks cond under the current path condition.
// sig (may be nil) is the signature of a known finding; finding its id.
func (in *Interp) obligation(fr *frame, cond value, label string, finding string, sig value) {
	st := &in.exp.Stats
	if st.Reached == nil {
		st.Reached = map[string]int{}
	}
	st.Reached[label]++
	pos := ""
	if fr != nil && fr.caller != nil {
		pos = in.Prog.Fset.Position(fr.caller.pos).String()
	}
	var ct *Term
	switch c := cond.(type) {
	case bool:
		if c {
			st.Obligations++
			st.TrivialOblig++
			st.Discharged++
			return
		}
		ct = FalseT
	case *Sym:
		ct = c.T
	default:
		panic(fmt.Sprintf("obligation: %T", cond))
	}
	if v, ok := in.run.facts[ct.S]; ok && v {
		st.Obligations++
		st.TrivialOblig++
		st.Discharged++
		return
	}
	origS := ct.S
	if d := in.nextDecision(dOblig, label+":"+ct.S); d != nil {
		if !d.taken {
			panic(pathEnd{"stop"})
		}
		in.setFact(ct, true)
		return
	}
	st.Obligations++
	neg := in.TC.Not(ct)
	if len(st.ObligSamples) < 5 {
		st.ObligSamples = append(st.ObligSamples, fmt.Sprintf("%s @%s: pc(depth %d) ∧ ¬%s", label, pos, in.Solver.Depth(), clip(ct.S, 300)))
	}
	known := finding != "" && in.exp.Cfg.KnownActive[finding]
	var sigT *Term
	if known {
		sigT = boolTerm(sig)
	}
	violated := false
	if known {
		// A: violation outside the finding's signature
		inputs, res := in.modelInputs(neg, in.TC.Not(sigT))
		switch res {
		case Sat:
			in.record(&st.Violations, Violation{Label: label, Kind: "assert", Inputs: inputs, Pos: pos})
			violated = true
		case Unsat:
		default:
			in.exp.unknowns++
			in.noteInconclusive(fmt.Sprintf("obligation %s: solver %s (%s)", label, res, in.Solver.LastError))
		}
		// B: the known finding itself (once it has been recorded on this instance, further
		// occurrences need no confirmed model)
		seen := false
		for _, k := range st.Known {
			if k.Finding == finding {
				seen = true
			}
		}
		in.noFresh = seen
		inputsB, resB := in.modelInputs(neg, sigT)
		in.noFresh = false
		if resB == Sat {
			if !seen {
				in.record(&st.Known, Violation{Label: label, Kind: "known", Finding: finding, Inputs: inputsB, Pos: pos})
			}
			violated = true
		} else if resB != Unsat {
			in.exp.unknowns++
			in.noteInconclusive(fmt.Sprintf("obligation %s (finding part): solver %s", label, resB))
		}
		if !violated && res == Unsat && resB == Unsat {
			st.Discharged++
		}
	} else {
		inputs, res := in.modelInputs(neg)
		switch res {
		case Sat:
			in.record(&st.Violations, Violation{Label: label, Kind: "assert", Inputs: inputs, Pos: pos})
			violated = true
		case Unsat:
			st.Discharged++
		default:
			in.exp.unknowns++
			in.noteInconclusive(fmt.Sprintf("obligation %s: solver %s (%s)", label, res, in.Solver.LastError))
		}
	}
	// continue under the assumption that the assertion holds (or, for an active known finding,
	// that it holds outside the finding's signature)
	if known {
		ct = in.TC.Or(ct, sigT)
		if ct.S == "true" {
			in.pushDecision(decision{kind: dOblig, cond: label + ":" + origS, taken: true})
			return
		}
	}
	if ct.S == "false" || (violated && !in.feasible(ct)) {
		in.pushDecision(decision{kind: dOblig, cond: label + ":" + origS, taken: false})
		panic(pathEnd{"stop"})
	}
	if violated {
		in.Solver.Push()
		in.Solver.Assert(ct)
		in.pushDecision(decision{kind: dOblig, cond: label + ":" + origS, term: ct, taken: true, pushed: true})
	} else {
		in.pushDecision(decision{kind: dOblig, cond: label + ":" + origS, term: ct, taken: true})
	}
	in.setFact(ct, true)
}

func clip(s string, n int) string {
	if len(s) > n {
		return s[:n] + "…"
	}
	return s
}

// ---------------------------------------------------------------- exploration loop

// Explore runs fn (a niladic harness function) over all feasible paths.
func (e *Explorer) Explore(fn *ssa.Function) {
	in := e.In
	in.exp = e
	t0 := time.Now()
	var stack []decision
	defer func() { e.Stats.Wall = time.Since(t0); e.Stats.Steps = in.Steps }()
	for {
		if e.Cfg.MaxPaths > 0 && e.Stats.Paths >= e.Cfg.MaxPaths {
			in.noteInconclusive(fmt.Sprintf("path budget %d exhausted", e.Cfg.MaxPaths))
			break
		}
		if e.unknowns >= 3 {
			in.noteInconclusive("exploration of this instance stopped after 3 undecided obligations")
			break
		}
		if in.Solver.Dead {
			in.noteInconclusive("solver process died or was killed by the watchdog: " + in.Solver.LastError)
			break
		}
		if !e.Cfg.Deadline.IsZero() && time.Now().After(e.Cfg.Deadline) {
			in.noteInconclusive("time budget exhausted")
			break
		}
		e.Stats.Paths++
		in.run = &runState{stack: stack, names: map[string]int{}, tmCivil: map[string][2]int64{}, mapSite: -1}
		in.overrides = map[string]value{}
		in.undoOn = true
		stepsBefore := in.Steps
		in.Steps = 0
		outcome := e.runOnce(fn)
		in.Steps += stepsBefore
		in.rollback()
		in.undoOn = false
		stack = in.run.stack
		if in.run.mapSiteHits > 0 {
			e.Stats.MapSiteHits += in.run.mapSiteHits
		}
		switch outcome {
		case "done":
			e.Stats.Completed++
			e.maybeWitness()
		case "assume":
			e.Stats.Vacuous++
		case "infeasible", "unknown":
			e.Stats.Infeasible++
		case "budget":
			e.Stats.Unwind++
			in.noteInconclusive("unwinding/step budget exceeded on a feasible path")
		case "stop":
		}
		if len(e.Stats.Violations) >= e.Cfg.MaxViolations && e.Cfg.MaxViolations > 0 {
			break
		}
		// backtrack
		flipped := false
		for len(stack) > 0 {
			d := &stack[len(stack)-1]
			if d.hasAlt {
				in.Solver.Pop(1)
				d.hasAlt = false
				switch d.kind {
				case dBranch:
					d.taken = !d.taken
					in.Solver.Push()
					if d.taken {
						in.Solver.Assert(d.term)
					} else {
						in.Solver.Assert(in.TC.Not(d.term))
					}
				case dConc:
					d.taken = false
					in.Solver.Push()
					in.Solver.Assert(in.TC.Not(d.term))
				case dChoice:
					d.val++
					d.hasAlt = d.val < d.n-1
					in.Solver.Push()
					in.Solver.Assert(in.TC.Eq(d.term, IntConst(d.val)))
				}
				flipped = true
				break
			}
			if d.pushed {
				in.Solver.Pop(1)
			}
			stack = stack[:len(stack)-1]
		}
		if !flipped {
			break
		}
	}
	// leave the solver clean
	if in.Solver.Depth() > 0 {
		in.Solver.Pop(in.Solver.Depth())
	}
	in.run = nil
}

func (e *Explorer) runOnce(fn *ssa.Function) (outcome string) {
	in := e.In
	defer func() {
		p := recover()
		if p == nil {
			return
		}
		switch p := p.(type) {
		case pathEnd:
			outcome = p.reason
		case targetPanic:
			// a panic escaped the harness: violation with any model of the path
			inputs, res := in.modelInputs()
			if res == Sat {
				in.record(&e.Stats.Violations, Violation{Label: "no-panic", Kind: "panic", Msg: p.msg, Inputs: inputs})
			} else {
				in.noteInconclusive("escaped panic on a path whose model could not be produced: " + p.msg)
			}
			outcome = "stop"
		case unsupported:
			in.noteInconclusive("unsupported: " + p.what + " @ " + in.where())
			outcome = "stop"
		case engineError:
			in.noteInconclusive("engine error: " + p.msg + "\n" + p.stack)
			outcome = "stop"
		default:
			in.noteInconclusive(fmt.Sprintf("engine panic: %v\n%s", p, stack()))
			outcome = "stop"
		}
	}()
	in.callSSA(nil, token.NoPos, fn, nil, nil)
	return "done"
}

func (e *Explorer) maybeWitness() {
	cfg := e.Cfg
	if cfg.WitnessEvery <= 0 || len(e.Stats.Witnesses) >= cfg.MaxWitnesses {
		return
	}
	if (e.Stats.Completed-1)%cfg.WitnessEvery != 0 {
		return
	}
	in := e.In
	r := in.run
	terms := make([]*Term, 0, len(r.inputs)+len(r.obs))
	for _, inp := range r.inputs {
		terms = append(terms, inp.Term)
	}
	type ob struct {
		label string
		parts []obsPart
	}
	var obsList []ob
	for _, o := range r.obs {
		parts := o.parts
		obsList = append(obsList, ob{o.label, parts})
		for _, p := range parts {
			if p.t != nil {
				terms = append(terms, p.t)
			}
		}
	}
	res, vals := in.Solver.CheckModel(nil, terms)
	if res != Sat {
		return
	}
	w := Witness{Params: map[string]int{}, Observed: map[string]string{}}
	for k, x := range in.Params {
		w.Params[k] = x
	}
	for i, inp := range r.inputs {
		inp.Val = normalizeModelValue(vals[i], inp)
		w.Inputs = append(w.Inputs, inp)
	}
	vi := len(r.inputs)
	cnt := map[string]int{}
	for _, o := range obsList {
		var b strings.Builder
		for _, p := range o.parts {
			if p.t == nil {
				b.WriteString(p.s)
			} else {
				b.WriteString(renderObsValue(vals[vi], p))
				vi++
			}
		}
		lbl := o.label
		if cnt[lbl] > 0 {
			lbl = fmt.Sprintf("%s#%d", lbl, cnt[o.label])
		}
		cnt[o.label]++
		w.Observed[lbl] = b.String()
	}
	e.Stats.Witnesses = append(e.Stats.Witnesses, w)
}

// SortedFuncs lists the knut functions executed.
func (in *Interp) SortedFuncs() []string {
	var fs []string
	for f := range in.FuncsHit {
		fs = append(fs, f)
	}
	sort.Strings(fs)
	return fs
}

func (in *Interp) SortedStubs() []string {
	var fs []string
	for f := range in.StubsHit {
		fs = append(fs, f)
	}
	sort.Strings(fs)
	return fs
}
