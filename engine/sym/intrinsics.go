package sym

import (
	"fmt"
	"os"
	"go/types"
	"math"
	"math/bits"
	"regexp"
	"strconv"
	"strings"
	"unicode"
	"unicode/utf8"

	"golang.org/x/tools/go/ssa"
)

const zz = "github.com/sboehler/knut/lib/zzverif."

func registerIntrinsics(in *Interp) {
	registerTime(in)
	registerDecimal(in)
	registerZZ(in)
	registerFmt(in)
	registerStd(in)
	registerFS(in)
}

// makeError builds an error value carrying msg (an *errors.errorString).
func (in *Interp) makeError(fr *frame, msg value) iface {
	pkg := in.Prog.ImportedPackage("errors")
	if pkg == nil {
		panic(unsupported{"errors package not loaded"})
	}
	t := pkg.Type("errorString").Object().Type()
	var cell value = structure{msg}
	return iface{t: types.NewPointer(t), v: &cell}
}

func strArg(v value) string {
	switch s := v.(type) {
	case string:
		return s
	case *SymStr:
		if cs, ok := s.concrete(); ok {
			return cs
		}
		panic(unsupported{"symbolic string where a concrete one is required"})
	}
	panic(fmt.Sprintf("strArg: %T", v))
}

// ------------------------------------------------------------------ zzverif

func registerZZ(in *Interp) {
	I := in.intrinsics
	I[zz+"Symbolic"] = func(in *Interp, fr *frame, fn *ssa.Function, a []value) value { return true }
	I[zz+"Param"] = func(in *Interp, fr *frame, fn *ssa.Function, a []value) value {
		name := strArg(a[0])
		v, ok := in.Params[name]
		if !ok {
			panic(unsupported{"harness parameter " + name + " not set"})
		}
		return int64(v)
	}
	I[zz+"Bool"] = func(in *Interp, fr *frame, fn *ssa.Function, a []value) value {
		nm := in.run.uniq(strArg(a[0]))
		t := in.TC.Declare(smtName(nm), BoolSort)
		in.run.inputs = append(in.run.inputs, Input{Name: nm, Kind: "bool", Term: t})
		return &Sym{T: t}
	}
	I[zz+"Int"] = func(in *Interp, fr *frame, fn *ssa.Function, a []value) value {
		nm := in.run.uniq(strArg(a[0]))
		lo, hi := in.intArg(a[1], "lo"), in.intArg(a[2], "hi")
		t := in.TC.Declare(smtName(nm), IntSort)
		in.run.inputs = append(in.run.inputs, Input{Name: nm, Kind: "int", Term: t})
		in.assume(in.TC.And(in.TC.App(BoolSort, "<=", IntConst(lo), t), in.TC.App(BoolSort, "<=", t, IntConst(hi))))
		return &Sym{T: t}
	}
	I[zz+"Byte"] = func(in *Interp, fr *frame, fn *ssa.Function, a []value) value {
		nm := in.run.uniq(strArg(a[0]))
		t := in.TC.Declare(smtName(nm), BV(8))
		in.run.inputs = append(in.run.inputs, Input{Name: nm, Kind: "byte", Term: t})
		return &Sym{T: t}
	}
	I[zz+"Bytes"] = func(in *Interp, fr *frame, fn *ssa.Function, a []value) value {
		base := strArg(a[0])
		n := in.intArg(a[1], "n")
		e := make([]value, n)
		for i := range e {
			nm := in.run.uniq(fmt.Sprintf("%s[%d]", base, i))
			t := in.TC.Declare(smtName(nm), BV(8))
			in.run.inputs = append(in.run.inputs, Input{Name: nm, Kind: "byte", Term: t})
			e[i] = &Sym{T: t}
		}
		if n == 0 {
			return ""
		}
		return &SymStr{E: e}
	}
	I[zz+"Digits"] = func(in *Interp, fr *frame, fn *ssa.Function, a []value) value {
		// n ASCII digits: each is an Int variable d in 0..9, the character is '0'+d
		base := strArg(a[0])
		n := in.intArg(a[1], "n")
		e := make([]value, n)
		for i := range e {
			nm := in.run.uniq(fmt.Sprintf("%s[%d]", base, i))
			d := in.TC.Declare(smtName(nm), IntSort)
			in.run.inputs = append(in.run.inputs, Input{Name: nm, Kind: "digit", Term: d})
			in.assume(in.TC.And(in.TC.App(BoolSort, "<=", IntConst(0), d), in.TC.App(BoolSort, "<=", d, IntConst(9))))
			ch := in.TC.App(BV(8), "(_ int2bv 8)", in.TC.App(IntSort, "+", IntConst(48), d))
			in.TC.MarkDigit(ch, d)
			e[i] = &Sym{T: ch}
		}
		if n == 0 {
			return ""
		}
		return &SymStr{E: e}
	}
	I[zz+"Decimal"] = func(in *Interp, fr *frame, fn *ssa.Function, a []value) value {
		nm := in.run.uniq(strArg(a[0]))
		scale := in.intArg(a[1], "scale")
		t := in.TC.Declare(smtName(nm), IntSort)
		in.run.inputs = append(in.run.inputs, Input{Name: nm, Kind: "decimal", Term: t, Aux: int(scale)})
		return Dec{I: t, S: scale}
	}
	I[zz+"Day"] = func(in *Interp, fr *frame, fn *ssa.Function, a []value) value {
		nm := in.run.uniq(strArg(a[0]))
		ly, hy := in.intArg(a[1], "loYear"), in.intArg(a[2], "hiYear")
		lo, hi := daysFromCivil(ly, 1, 1), daysFromCivil(hy, 12, 31)
		t := in.TC.Declare(smtName(nm), IntSort)
		in.run.inputs = append(in.run.inputs, Input{Name: nm, Kind: "day", Term: t})
		in.assume(in.TC.And(in.TC.App(BoolSort, "<=", IntConst(lo), t), in.TC.App(BoolSort, "<=", t, IntConst(hi))))
		return Tm{T: t, Lo: lo, Hi: hi}
	}
	I[zz+"Choice"] = func(in *Interp, fr *frame, fn *ssa.Function, a []value) value {
		return int64(in.choice(strArg(a[0]), int(in.intArg(a[1], "n"))))
	}
	I[zz+"Perm"] = func(in *Interp, fr *frame, fn *ssa.Function, a []value) value {
		n := int(in.intArg(a[1], "n"))
		name := strArg(a[0])
		rest := make([]int, n)
		for i := range rest {
			rest[i] = i
		}
		out := make([]value, 0, n)
		for len(rest) > 1 {
			c := in.choice(name, len(rest))
			out = append(out, int64(rest[c]))
			rest = append(rest[:c], rest[c+1:]...)
		}
		for _, r := range rest {
			out = append(out, int64(r))
		}
		return out
	}
	I[zz+"MapOrder"] = func(in *Interp, fr *frame, fn *ssa.Function, a []value) value {
		in.run.mapOrder = a[0].(bool)
		if in.run.mapOrderMax == 0 {
			in.run.mapOrderMax = 4
		}
		return nil
	}
	I[zz+"MapOrderSite"] = func(in *Interp, fr *frame, fn *ssa.Function, a []value) value {
		in.run.mapSite = int(in.intArg(a[0], "site"))
		in.run.mapSiteBudget = int(in.intArg(a[1], "budget"))
		if in.run.mapOrderMax == 0 {
			in.run.mapOrderMax = 4
		}
		return nil
	}
	I[zz+"MapOrderMax"] = func(in *Interp, fr *frame, fn *ssa.Function, a []value) value {
		in.run.mapOrderMax = int(in.intArg(a[0], "n"))
		return nil
	}
	I[zz+"Assume"] = func(in *Interp, fr *frame, fn *ssa.Function, a []value) value {
		in.assume(boolTerm(a[0]))
		return nil
	}
	I[zz+"Assert"] = func(in *Interp, fr *frame, fn *ssa.Function, a []value) value {
		in.obligation(fr, a[0], strArg(a[1]), "", nil)
		return nil
	}
	I[zz+"AssertExcept"] = func(in *Interp, fr *frame, fn *ssa.Function, a []value) value {
		in.obligation(fr, a[0], strArg(a[1]), strArg(a[2]), a[3])
		return nil
	}
	I[zz+"Try"] = func(in *Interp, fr *frame, fn *ssa.Function, a []value) (res value) {
		defer func() {
			if p := recover(); p != nil {
				tp, ok := p.(targetPanic)
				if !ok {
					panic(p)
				}
				if os.Getenv("SYMGO_DEBUG") != "" {
					fmt.Fprintf(os.Stderr, "Try: panic %q at %s\n", tp.msg, tp.where)
				}
				res = tuple{true, strOrSym(tp.msg)}
			}
		}()
		in.call(fr, fr.pos, a[0], nil)
		return tuple{false, ""}
	}
	I[zz+"Observe"] = func(in *Interp, fr *frame, fn *ssa.Function, a []value) value {
		in.run.obs = append(in.run.obs, observation{label: strArg(a[0]), parts: in.flattenObs(a[1])})
		return nil
	}
	I[zz+"Override"] = func(in *Interp, fr *frame, fn *ssa.Function, a []value) value {
		f := a[1].(iface)
		in.overrides[strArg(a[0])] = f.v
		return nil
	}
	I[zz+"ExitAfterCase"] = func(in *Interp, fr *frame, fn *ssa.Function, a []value) value { return nil }
	I[zz+"Concrete"] = func(in *Interp, fr *frame, fn *ssa.Function, a []value) value {
		// Concrete(x int) int: concretise by forking
		return in.intArg(a[0], "Concrete")
	}
	I[zz+"IsDecimalText"] = func(in *Interp, fr *frame, fn *ssa.Function, a []value) value {
		return true
	}
}

func strOrSym(s string) value { return s }

// ------------------------------------------------------------------ std

func registerStd(in *Interp) {
	I := in.intrinsics
	nop := func(in *Interp, fr *frame, fn *ssa.Function, a []value) value { return nil }
	for _, n := range []string{
		"(*sync.Mutex).Lock", "(*sync.Mutex).Unlock", "(*sync.RWMutex).Lock", "(*sync.RWMutex).Unlock",
		"(*sync.RWMutex).RLock", "(*sync.RWMutex).RUnlock", "runtime.KeepAlive", "runtime.SetFinalizer",
		"runtime.GC", "runtime.Gosched", "internal/race.Acquire", "internal/race.Release", "internal/race.ReleaseMerge",
		"internal/race.Disable", "internal/race.Enable", "internal/race.ReadRange", "internal/race.WriteRange",
	} {
		I[n] = nop
	}
	I["(*sync.Mutex).TryLock"] = func(in *Interp, fr *frame, fn *ssa.Function, a []value) value { return true }
	I["(*sync.Once).Do"] = func(in *Interp, fr *frame, fn *ssa.Function, a []value) value {
		p := in.derefPtr(a[0], "Once")
		st := (*p).(structure)
		// fields: done (atomic.Uint32 struct or uint32), m Mutex
		done := &st[0]
		if isZeroish(*done) {
			in.logStore(done)
			*done = markDone(*done)
			in.call(fr, fr.pos, a[1], nil)
		}
		return nil
	}
	// strings.Builder
	sbBuf := func(in *Interp, recv value) *value {
		p := in.derefPtr(recv, "strings.Builder")
		return &(*p).(structure)[1]
	}
	sbAppend := func(in *Interp, recv value, elems []value) {
		bp := sbBuf(in, recv)
		cur, _ := (*bp).([]value)
		ns := make([]value, 0, len(cur)+len(elems))
		ns = append(ns, cur...)
		ns = append(ns, elems...)
		in.logStore(bp)
		*bp = ns
	}
	I["(*strings.Builder).WriteString"] = func(in *Interp, fr *frame, fn *ssa.Function, a []value) value {
		sbAppend(in, a[0], strElems(a[1]))
		return tuple{int64(strLen(a[1])), iface{}}
	}
	I["(*strings.Builder).Write"] = func(in *Interp, fr *frame, fn *ssa.Function, a []value) value {
		b, _ := a[1].([]value)
		sbAppend(in, a[0], append([]value(nil), b...))
		return tuple{int64(len(b)), iface{}}
	}
	I["(*strings.Builder).WriteByte"] = func(in *Interp, fr *frame, fn *ssa.Function, a []value) value {
		sbAppend(in, a[0], []value{a[1]})
		return iface{}
	}
	I["(*strings.Builder).WriteRune"] = func(in *Interp, fr *frame, fn *ssa.Function, a []value) value {
		var s value
		switch r := a[1].(type) {
		case int64:
			s = string(rune(r))
		case *Sym:
			s = in.encodeRuneSym(r, types.Int32)
		}
		sbAppend(in, a[0], strElems(s))
		return tuple{int64(strLen(s)), iface{}}
	}
	I["(*strings.Builder).String"] = func(in *Interp, fr *frame, fn *ssa.Function, a []value) value {
		cur, _ := (*sbBuf(in, a[0])).([]value)
		return normStr(append([]value(nil), cur...))
	}
	I["(*strings.Builder).Len"] = func(in *Interp, fr *frame, fn *ssa.Function, a []value) value {
		cur, _ := (*sbBuf(in, a[0])).([]value)
		return int64(len(cur))
	}
	I["(*strings.Builder).Reset"] = func(in *Interp, fr *frame, fn *ssa.Function, a []value) value {
		bp := sbBuf(in, a[0])
		in.logStore(bp)
		*bp = []value(nil)
		return nil
	}
	I["(*strings.Builder).Grow"] = nop

	// internal/bytealg
	I["internal/bytealg.IndexByteString"] = func(in *Interp, fr *frame, fn *ssa.Function, a []value) value {
		return in.indexByte(strElems(a[0]), a[1])
	}
	I["internal/bytealg.IndexByte"] = func(in *Interp, fr *frame, fn *ssa.Function, a []value) value {
		b, _ := a[0].([]value)
		return in.indexByte(b, a[1])
	}
	I["internal/bytealg.CountString"] = func(in *Interp, fr *frame, fn *ssa.Function, a []value) value {
		n := int64(0)
		for _, e := range strElems(a[0]) {
			if in.truth(in.byteEq(e, a[1])) {
				n++
			}
		}
		return n
	}
	I["internal/bytealg.Count"] = func(in *Interp, fr *frame, fn *ssa.Function, a []value) value {
		n := int64(0)
		b, _ := a[0].([]value)
		for _, e := range b {
			if in.truth(in.byteEq(e, a[1])) {
				n++
			}
		}
		return n
	}
	I["internal/bytealg.Equal"] = func(in *Interp, fr *frame, fn *ssa.Function, a []value) value {
		x, _ := a[0].([]value)
		y, _ := a[1].([]value)
		return in.strEq(normStr(x), normStr(y))
	}
	I["bytes.Equal"] = I["internal/bytealg.Equal"]
	I["internal/bytealg.IndexString"] = func(in *Interp, fr *frame, fn *ssa.Function, a []value) value {
		return in.indexString(a[0], a[1])
	}
	I["strings.Index"] = I["internal/bytealg.IndexString"]
	I["strings.Contains"] = func(in *Interp, fr *frame, fn *ssa.Function, a []value) value {
		r := in.indexString(a[0], a[1])
		return r.(int64) >= 0
	}
	I["strings.HasPrefix"] = func(in *Interp, fr *frame, fn *ssa.Function, a []value) value {
		s, p := strElems(a[0]), strElems(a[1])
		if len(s) < len(p) {
			return false
		}
		return in.strEq(normStr(s[:len(p)]), a[1])
	}
	I["strings.HasSuffix"] = func(in *Interp, fr *frame, fn *ssa.Function, a []value) value {
		s, p := strElems(a[0]), strElems(a[1])
		if len(s) < len(p) {
			return false
		}
		return in.strEq(normStr(s[len(s)-len(p):]), a[1])
	}
	I["internal/bytealg.MakeNoZero"] = func(in *Interp, fr *frame, fn *ssa.Function, a []value) value {
		n := in.intArg(a[0], "n")
		s := make([]value, n)
		for i := range s {
			s[i] = int64(0)
		}
		return s
	}
	I["internal/stringslite.Index"] = I["internal/bytealg.IndexString"]
	I["internal/stringslite.IndexByte"] = I["internal/bytealg.IndexByteString"]
	I["strings.IndexByte"] = I["internal/bytealg.IndexByteString"]
	I["internal/stringslite.HasPrefix"] = I["strings.HasPrefix"]
	I["internal/stringslite.HasSuffix"] = I["strings.HasSuffix"]
	I["strings.ToLower"] = func(in *Interp, fr *frame, fn *ssa.Function, a []value) value {
		return strings.ToLower(strArg(a[0]))
	}
	I["strings.ToUpper"] = func(in *Interp, fr *frame, fn *ssa.Function, a []value) value {
		return strings.ToUpper(strArg(a[0]))
	}
	I["strings.Clone"] = func(in *Interp, fr *frame, fn *ssa.Function, a []value) value { return a[0] }
	I["unsafe.String"] = func(in *Interp, fr *frame, fn *ssa.Function, a []value) value {
		panic(unsupported{"unsafe.String"})
	}

	// unicode predicates
	uni := func(name string, native func(rune) bool, tab *unicode.RangeTable, extra func(r rune) bool) intrinsicFn {
		return func(in *Interp, fr *frame, fn *ssa.Function, a []value) value {
			switch r := a[0].(type) {
			case int64:
				return native(rune(r))
			case *Sym:
				if _, ok := in.TC.DigitOf(r.T); ok {
					return native('5')
				}
				return symOrBool(in.unicodePred(name, native, r.T))
			}
			panic("unicode pred")
		}
	}
	I["unicode.IsLetter"] = uni("IsLetter", unicode.IsLetter, unicode.Letter, nil)
	I["unicode.IsDigit"] = uni("IsDigit", unicode.IsDigit, unicode.Digit, nil)
	I["unicode.IsSpace"] = uni("IsSpace", unicode.IsSpace, unicode.White_Space, nil)
	I["unicode.IsUpper"] = uni("IsUpper", unicode.IsUpper, unicode.Upper, nil)
	I["unicode.IsLower"] = uni("IsLower", unicode.IsLower, unicode.Lower, nil)
	I["unicode.IsNumber"] = uni("IsNumber", unicode.IsNumber, unicode.Number, nil)
	I["unicode.IsPunct"] = uni("IsPunct", unicode.IsPunct, unicode.Punct, nil)
	I["unicode.IsControl"] = uni("IsControl", unicode.IsControl, nil, nil)
	I["unicode.IsPrint"] = uni("IsPrint", unicode.IsPrint, nil, nil)
	I["unicode.IsGraphic"] = uni("IsGraphic", unicode.IsGraphic, nil, nil)
	I["strconv.IsPrint"] = uni("strconvIsPrint", strconv.IsPrint, nil, nil)

	// utf8 fast paths for concrete data (symbolic data is interpreted from source)
	I["unicode/utf8.RuneCountInString"] = func(in *Interp, fr *frame, fn *ssa.Function, a []value) value {
		if s, ok := a[0].(string); ok {
			return int64(utf8.RuneCountInString(s))
		}
		if in.allASCII(a[0].(*SymStr)) {
			return int64(len(a[0].(*SymStr).E))
		}
		return in.callBody(fr, fn, a)
	}
	I["unicode/utf8.DecodeRuneInString"] = func(in *Interp, fr *frame, fn *ssa.Function, a []value) value {
		if s, ok := a[0].(string); ok {
			r, w := utf8.DecodeRuneInString(s)
			return tuple{int64(r), int64(w)}
		}
		ss := a[0].(*SymStr)
		switch b0 := ss.E[0].(type) {
		case int64:
			if b0 < utf8.RuneSelf {
				return tuple{b0, int64(1)}
			}
		case *Sym:
			if _, ok := in.TC.DigitOf(b0.T); ok {
				return tuple{&Sym{T: in.resize(b0.T, 32, false)}, int64(1)}
			}
			// ASCII fast path (same result as the library, simpler term)
			if in.branch(in.TC.App(BoolSort, "bvult", b0.T, BVConst(utf8.RuneSelf, 8))) {
				return tuple{&Sym{T: in.resize(b0.T, 32, false)}, int64(1)}
			}
		}
		return in.callBody(fr, fn, a)
	}
	I["unicode/utf8.ValidString"] = func(in *Interp, fr *frame, fn *ssa.Function, a []value) value {
		if s, ok := a[0].(string); ok {
			return utf8.ValidString(s)
		}
		return in.callBody(fr, fn, a)
	}

	// strconv on concrete arguments
	I["strconv.Itoa"] = func(in *Interp, fr *frame, fn *ssa.Function, a []value) value {
		if v, ok := a[0].(int64); ok {
			return strconv.Itoa(int(v))
		}
		return "<int>"
	}
	I["strconv.Atoi"] = func(in *Interp, fr *frame, fn *ssa.Function, a []value) value {
		if s, ok := a[0].(string); ok {
			v, err := strconv.Atoi(s)
			if err != nil {
				return tuple{int64(0), in.makeError(fr, err.Error())}
			}
			return tuple{int64(v), iface{}}
		}
		return in.atoiSym(fr, a[0].(*SymStr))
	}
	I["strconv.Quote"] = func(in *Interp, fr *frame, fn *ssa.Function, a []value) value {
		if s, ok := a[0].(string); ok {
			return strconv.Quote(s)
		}
		return in.callBody(fr, fn, a)
	}
	I["strconv.ParseFloat"] = func(in *Interp, fr *frame, fn *ssa.Function, a []value) value {
		f, err := strconv.ParseFloat(strArg(a[0]), int(in.intArg(a[1], "bits")))
		if err != nil {
			return tuple{f, in.makeError(fr, err.Error())}
		}
		return tuple{f, iface{}}
	}
	I["strconv.ParseInt"] = func(in *Interp, fr *frame, fn *ssa.Function, a []value) value {
		v, err := strconv.ParseInt(strArg(a[0]), int(in.intArg(a[1], "base")), int(in.intArg(a[2], "bits")))
		if err != nil {
			return tuple{v, in.makeError(fr, err.Error())}
		}
		return tuple{v, iface{}}
	}
	I["strconv.FormatInt"] = func(in *Interp, fr *frame, fn *ssa.Function, a []value) value {
		return strconv.FormatInt(in.intArg(a[0], "i"), int(in.intArg(a[1], "base")))
	}
	I["strconv.FormatFloat"] = func(in *Interp, fr *frame, fn *ssa.Function, a []value) value {
		return strconv.FormatFloat(a[0].(float64), byte(in.intArg(a[1], "fmt")), int(in.intArg(a[2], "prec")), int(in.intArg(a[3], "bits")))
	}

	// regexp: native on concrete arguments
	I["regexp.Compile"] = func(in *Interp, fr *frame, fn *ssa.Function, a []value) value {
		re, err := regexp.Compile(strArg(a[0]))
		if err != nil {
			return tuple{(*value)(nil), in.makeError(fr, err.Error())}
		}
		var cell value = &native{kind: "regexp", obj: re}
		return tuple{&cell, iface{}}
	}
	I["regexp.MustCompile"] = func(in *Interp, fr *frame, fn *ssa.Function, a []value) value {
		re, err := regexp.Compile(strArg(a[0]))
		if err != nil {
			panic(targetPanic{v: iface{t: in.runtimeErrorType(), v: err.Error()}, msg: err.Error()})
		}
		var cell value = &native{kind: "regexp", obj: re}
		return &cell
	}
	reOf := func(in *Interp, v value) *regexp.Regexp {
		p := in.derefPtr(v, "regexp")
		return (*p).(*native).obj.(*regexp.Regexp)
	}
	I["(*regexp.Regexp).MatchString"] = func(in *Interp, fr *frame, fn *ssa.Function, a []value) value {
		return reOf(in, a[0]).MatchString(strArg(a[1]))
	}
	I["(*regexp.Regexp).ReplaceAllString"] = func(in *Interp, fr *frame, fn *ssa.Function, a []value) value {
		return reOf(in, a[0]).ReplaceAllString(strArg(a[1]), strArg(a[2]))
	}
	I["(*regexp.Regexp).String"] = func(in *Interp, fr *frame, fn *ssa.Function, a []value) value {
		return reOf(in, a[0]).String()
	}
	I["(*regexp.Regexp).FindStringSubmatch"] = func(in *Interp, fr *frame, fn *ssa.Function, a []value) value {
		m := reOf(in, a[0]).FindStringSubmatch(strArg(a[1]))
		if m == nil {
			return []value(nil)
		}
		out := make([]value, len(m))
		for i, s := range m {
			out[i] = s
		}
		return out
	}

	// math
	I["math.Log"] = func(in *Interp, fr *frame, fn *ssa.Function, a []value) value { return math.Log(a[0].(float64)) }
	I["math.Inf"] = func(in *Interp, fr *frame, fn *ssa.Function, a []value) value {
		return math.Inf(int(in.intArg(a[0], "sign")))
	}
	I["math.Abs"] = func(in *Interp, fr *frame, fn *ssa.Function, a []value) value { return math.Abs(a[0].(float64)) }
	I["math.Pow"] = func(in *Interp, fr *frame, fn *ssa.Function, a []value) value {
		return math.Pow(a[0].(float64), a[1].(float64))
	}
	I["math.IsNaN"] = func(in *Interp, fr *frame, fn *ssa.Function, a []value) value { return math.IsNaN(a[0].(float64)) }
	I["math.IsInf"] = func(in *Interp, fr *frame, fn *ssa.Function, a []value) value {
		return math.IsInf(a[0].(float64), int(in.intArg(a[1], "sign")))
	}
	I["math.Float64bits"] = func(in *Interp, fr *frame, fn *ssa.Function, a []value) value {
		return int64(math.Float64bits(a[0].(float64)))
	}
	I["math.Float64frombits"] = func(in *Interp, fr *frame, fn *ssa.Function, a []value) value {
		return math.Float64frombits(uint64(a[0].(int64)))
	}
	I["math/bits.Len"] = func(in *Interp, fr *frame, fn *ssa.Function, a []value) value {
		return int64(bits.Len(uint(in.intArg(a[0], "x"))))
	}
	I["math/bits.Len64"] = func(in *Interp, fr *frame, fn *ssa.Function, a []value) value {
		return int64(bits.Len64(uint64(in.intArg(a[0], "x"))))
	}
	I["math/bits.TrailingZeros64"] = func(in *Interp, fr *frame, fn *ssa.Function, a []value) value {
		return int64(bits.TrailingZeros64(uint64(in.intArg(a[0], "x"))))
	}

	// sort.Slice family: run the real pdqsort with an engine swapper
	sortSlice := func(stable bool) intrinsicFn {
		return func(in *Interp, fr *frame, fn *ssa.Function, a []value) value {
			sl, _ := a[0].(iface).v.([]value)
			less := a[1]
			n := len(sl)
			swap := &nativeFunc{name: "swapper", f: func(in *Interp, fr *frame, args []value) value {
				i, j := in.intArg(args[0], "i"), in.intArg(args[1], "j")
				in.logStore(&sl[i])
				in.logStore(&sl[j])
				sl[i], sl[j] = sl[j], sl[i]
				return nil
			}}
			pkg := in.Prog.ImportedPackage("sort")
			ls := structure{less, swap}
			if stable {
				f := pkg.Func("stable_func")
				in.callSSA(fr, fr.pos, f, []value{ls, int64(n)}, nil)
				return nil
			}
			f := pkg.Func("pdqsort_func")
			limit := int64(bits.Len(uint(n)))
			in.callSSA(fr, fr.pos, f, []value{ls, int64(0), int64(n), limit}, nil)
			return nil
		}
	}
	I["sort.Slice"] = sortSlice(false)
	I["sort.SliceStable"] = sortSlice(true)

	// errors
	I["errors.Is"] = func(in *Interp, fr *frame, fn *ssa.Function, a []value) value {
		err, target := a[0].(iface), a[1].(iface)
		for depth := 0; depth < 50; depth++ {
			if err.t == nil {
				return target.t == nil
			}
			if target.t != nil && types.Identical(err.t, target.t) && types.Comparable(err.t) {
				if in.truth(in.equalsV(err.t, err.v, target.v)) {
					return true
				}
			}
			if m := in.findMethod(err.t, "Is"); m != nil {
				if in.truth(in.call(fr, fr.pos, m, []value{err.v, target})) {
					return true
				}
			}
			m := in.findMethod(err.t, "Unwrap")
			if m == nil {
				return false
			}
			next, ok := in.call(fr, fr.pos, m, []value{err.v}).(iface)
			if !ok {
				return false
			}
			err = next
		}
		return false
	}
	I["errors.Unwrap"] = func(in *Interp, fr *frame, fn *ssa.Function, a []value) value {
		err := a[0].(iface)
		if err.t == nil {
			return iface{}
		}
		m := in.findMethod(err.t, "Unwrap")
		if m == nil {
			return iface{}
		}
		if r, ok := in.call(fr, fr.pos, m, []value{err.v}).(iface); ok {
			return r
		}
		return iface{}
	}
	I["errors.New"] = func(in *Interp, fr *frame, fn *ssa.Function, a []value) value {
		return in.makeError(fr, a[0])
	}
	// github.com/fatih/color: plain output (the properties are stated for --color=false)
	I["github.com/fatih/color.New"] = func(in *Interp, fr *frame, fn *ssa.Function, a []value) value {
		var cell value = zero(deref(fn.Signature.Results().At(0).Type()))
		return &cell
	}
	I["(*github.com/fatih/color.Color).Fprintf"] = func(in *Interp, fr *frame, fn *ssa.Function, a []value) value {
		s, _ := in.sprintf(fr, a[2], sliceArg(a[3]))
		return in.writeTo(fr, a[1].(iface), s)
	}
	I["(*github.com/fatih/color.Color).Sprintf"] = func(in *Interp, fr *frame, fn *ssa.Function, a []value) value {
		s, _ := in.sprintf(fr, a[1], sliceArg(a[2]))
		return s
	}
	I["(*github.com/fatih/color.Color).Fprint"] = func(in *Interp, fr *frame, fn *ssa.Function, a []value) value {
		return in.writeTo(fr, a[1].(iface), in.sprint(fr, sliceArg(a[2]), false))
	}
	I["os.Getenv"] = func(in *Interp, fr *frame, fn *ssa.Function, a []value) value { return "" }
	I["os.Exit"] = func(in *Interp, fr *frame, fn *ssa.Function, a []value) value {
		panic(targetPanic{msg: fmt.Sprintf("os.Exit(%v)", a[0]), v: iface{t: in.runtimeErrorType(), v: "os.Exit"}})
	}
}

// allASCII: every element is a concrete byte < 0x80 or a known digit character.
func (in *Interp) allASCII(s *SymStr) bool {
	for _, e := range s.E {
		switch e := e.(type) {
		case int64:
			if e >= utf8.RuneSelf {
				return false
			}
		case *Sym:
			if _, ok := in.TC.DigitOf(e.T); !ok {
				return false
			}
		default:
			return false
		}
	}
	return true
}

func isZeroish(v value) bool {
	switch v := v.(type) {
	case int64:
		return v == 0
	case bool:
		return !v
	case structure:
		for _, f := range v {
			if !isZeroish(f) {
				return false
			}
		}
		return true
	case array:
		return true
	}
	return true
}

func markDone(v value) value {
	switch v := v.(type) {
	case int64:
		return int64(1)
	case bool:
		return true
	case structure:
		c := copyVal(v).(structure)
		for i := len(c) - 1; i >= 0; i-- {
			if _, ok := c[i].(int64); ok {
				c[i] = int64(1)
				return c
			}
		}
		return c
	}
	return int64(1)
}

// callBody interprets the SSA body of an intrinsic's function (fallback).
func (in *Interp) callBody(fr *frame, fn *ssa.Function, args []value) value {
	key := fnKey(fn)
	saved := in.intrinsics[key]
	delete(in.intrinsics, key)
	defer func() { in.intrinsics[key] = saved }()
	return in.callSSA(fr, fr.pos, fn, args, nil)
}

func (in *Interp) indexByte(e []value, c value) value {
	for i, x := range e {
		if in.truth(in.byteEq(x, c)) {
			return int64(i)
		}
	}
	return int64(-1)
}

func (in *Interp) indexString(s, sub value) value {
	if cs, ok := s.(string); ok {
		if csub, ok := sub.(string); ok {
			return int64(strings.Index(cs, csub))
		}
	}
	se, sube := strElems(s), strElems(sub)
	for i := 0; i+len(sube) <= len(se); i++ {
		if in.truth(in.strEq(normStr(se[i:i+len(sube)]), normStr(sube))) {
			return int64(i)
		}
	}
	return int64(-1)
}

// atoiSym: strconv.Atoi on a symbolic digit string (no sign handling beyond '-'/'+').
func (in *Interp) atoiSym(fr *frame, s *SymStr) value {
	tc := in.TC
	fail := func() value { return tuple{int64(0), in.makeError(fr, "strconv.Atoi: parsing symbolic text: invalid syntax")} }
	e := s.E
	if len(e) == 0 || len(e) > 18 {
		if len(e) > 18 {
			panic(unsupported{"strconv.Atoi of >18 symbolic characters"})
		}
		return fail()
	}
	neg := false
	i := 0
	if in.truth(in.byteEq(e[0], int64('-'))) {
		neg, i = true, 1
	} else if in.truth(in.byteEq(e[0], int64('+'))) {
		i = 1
	}
	if i == len(e) {
		return fail()
	}
	acc := IntConst(0)
	for ; i < len(e); i++ {
		switch b := e[i].(type) {
		case int64:
			if b < '0' || b > '9' {
				return fail()
			}
			acc = tc.App(IntSort, "+", tc.App(IntSort, "*", acc, IntConst(10)), IntConst(b-'0'))
		case *Sym:
			isd := tc.And(tc.App(BoolSort, "bvule", BVConst('0', 8), b.T), tc.App(BoolSort, "bvule", b.T, BVConst('9', 8)))
			if !in.branch(isd) {
				return fail()
			}
			acc = tc.App(IntSort, "+", tc.App(IntSort, "*", acc, IntConst(10)), tc.App(IntSort, "-", tc.App(IntSort, "bv2nat", b.T), IntConst('0')))
		default:
			return fail()
		}
	}
	if neg {
		acc = tc.App(IntSort, "-", acc)
	}
	return tuple{&Sym{T: acc}, iface{}}
}

// unicodePred returns a Bool term for pred(r) with r a BV32 term. The
// predicate is emitted once as a define-fun built from the toolchain's own
// unicode tables (exact for every rune value).
func (in *Interp) unicodePred(name string, native func(rune) bool, r *Term) *Term {
	fname := "uni_" + name
	if _, ok := in.TC.declared[fname]; !ok {
		in.TC.declared[fname] = BoolSort
		// build maximal ranges of runes satisfying the predicate
		var parts []string
		start := rune(-1)
		flush := func(end rune) {
			if start < 0 {
				return
			}
			if start == end {
				parts = append(parts, fmt.Sprintf("(= r #x%08x)", uint32(start)))
			} else {
				parts = append(parts, fmt.Sprintf("(and (bvule #x%08x r) (bvule r #x%08x))", uint32(start), uint32(end)))
			}
			start = -1
		}
		for c := rune(0); c <= unicode.MaxRune; c++ {
			if native(c) {
				if start < 0 {
					start = c
				}
			} else {
				flush(c - 1)
			}
		}
		flush(unicode.MaxRune)
		body := "false"
		if len(parts) > 0 {
			body = "(or false " + strings.Join(parts, " ") + ")"
		}
		in.TC.defs = append(in.TC.defs, fmt.Sprintf("(define-fun %s ((r (_ BitVec 32))) Bool %s)", fname, body))
	}
	if r.Sort.K != SBV || r.Sort.W != 32 {
		if r.Sort.K == SBV {
			r = in.resize(r, 32, true)
		} else {
			r = in.coerce(r, BV(32), true)
		}
	}
	return in.TC.App(BoolSort, fname, r)
}
