package sym

import (
	"fmt"
	"strings"
	"go/constant"
	"go/token"
	"go/types"
	"math"
	"unicode/utf8"

	"golang.org/x/tools/go/ssa"
)

func constValue(c *ssa.Const) value {
	if c.Value == nil {
		return zero(c.Type())
	}
	t := c.Type()
	if b, ok := t.Underlying().(*types.Basic); ok {
		k := b.Kind()
		switch {
		case k == types.Bool || k == types.UntypedBool:
			return constant.BoolVal(c.Value)
		case isIntKind(k):
			if w, signed := intInfo(k); !signed && w == 64 {
				u, _ := constant.Uint64Val(constant.ToInt(c.Value))
				return int64(u)
			}
			i, _ := constant.Int64Val(constant.ToInt(c.Value))
			return normInt(k, i)
		case k == types.Float32:
			f, _ := constant.Float64Val(c.Value)
			return float64(float32(f))
		case k == types.Float64 || k == types.UntypedFloat:
			f, _ := constant.Float64Val(c.Value)
			return f
		case k == types.String || k == types.UntypedString:
			if c.Value.Kind() == constant.String {
				return constant.StringVal(c.Value)
			}
			i, _ := constant.Int64Val(c.Value)
			return string(rune(i))
		}
	}
	if _, ok := t.Underlying().(*types.TypeParam); ok {
		panic(unsupported{"constant of type parameter type"})
	}
	panic(fmt.Sprintf("constValue: %T %v (%s)", c.Value, c, t))
}

// ---- symbolic helpers ----

// toTerm lifts an integer/bool value to a term of the given sort.
func (in *Interp) toTerm(v value, s Sort) *Term {
	switch v := v.(type) {
	case *Sym:
		if v.T.Sort == s {
			return v.T
		}
		return in.coerce(v.T, s, true)
	case int64:
		switch s.K {
		case SBV:
			return BVConst(v, s.W)
		case SInt:
			return IntConst(v)
		}
	case bool:
		return BoolConst(v)
	}
	panic(fmt.Sprintf("toTerm: %T to %v", v, s))
}

// coerce converts between BV and Int sorts.
func (in *Interp) coerce(t *Term, s Sort, signed bool) *Term {
	if t.Sort == s {
		return t
	}
	switch {
	case t.Sort.K == SBV && s.K == SInt:
		nat := in.TC.App(IntSort, "bv2nat", t)
		if !signed {
			return nat
		}
		w := t.Sort.W
		neg := in.TC.App(BoolSort, "bvslt", t, BVConst(0, w))
		two := new(bigIntT).Lsh(bigOne, uint(w))
		return in.TC.Ite(neg, in.TC.App(IntSort, "-", nat, IntConstBig(two)), nat)
	case t.Sort.K == SInt && s.K == SBV:
		return in.TC.App(s, fmt.Sprintf("(_ int2bv %d)", s.W), t)
	case t.Sort.K == SBV && s.K == SBV:
		return in.resize(t, s.W, signed)
	}
	panic(fmt.Sprintf("coerce %v -> %v", t.Sort, s))
}

func (in *Interp) resize(t *Term, w int, signed bool) *Term {
	sw := t.Sort.W
	switch {
	case sw == w:
		return t
	case sw > w:
		// extract of a visible zero/sign extension of a w-bit term is that term
		for _, pre := range []string{fmt.Sprintf("((_ zero_extend %d) ", sw-w), fmt.Sprintf("((_ sign_extend %d) ", sw-w)} {
			if strings.HasPrefix(t.S, pre) && strings.HasSuffix(t.S, ")") {
				return &Term{S: t.S[len(pre) : len(t.S)-1], Sort: BV(w)}
			}
		}
		r := in.TC.App(BV(w), fmt.Sprintf("(_ extract %d 0)", w-1), t)
		if d, ok := in.TC.DigitOf(t); ok && w >= 8 {
			in.TC.MarkDigit(r, d)
		}
		return r
	case signed:
		return in.TC.App(BV(w), fmt.Sprintf("(_ sign_extend %d)", w-sw), t)
	default:
		r := in.TC.App(BV(w), fmt.Sprintf("(_ zero_extend %d)", w-sw), t)
		if d, ok := in.TC.DigitOf(t); ok {
			in.TC.MarkDigit(r, d)
		}
		return r
	}
}

func symSort(x, y value) (Sort, bool) {
	if s, ok := x.(*Sym); ok {
		return s.T.Sort, true
	}
	if s, ok := y.(*Sym); ok {
		return s.T.Sort, true
	}
	return Sort{}, false
}

func boolTerm(v value) *Term {
	switch v := v.(type) {
	case bool:
		return BoolConst(v)
	case *Sym:
		return v.T
	}
	panic(fmt.Sprintf("boolTerm: %T", v))
}

func symOrBool(t *Term) value {
	switch t.S {
	case "true":
		return true
	case "false":
		return false
	}
	return &Sym{T: t}
}

// ---- unary ----

func (in *Interp) unop(fr *frame, instr *ssa.UnOp, x value) value {
	switch instr.Op {
	case token.ARROW:
		panic(unsupported{"channel receive"})
	case token.MUL:
		if sp, ok := x.(*symPtr); ok {
			return in.loadSym(sp, deref(instr.X.Type()))
		}
		p := in.derefPtr(x, "load")
		return load(deref(instr.X.Type()), p)
	case token.NOT:
		switch x := x.(type) {
		case bool:
			return !x
		case *Sym:
			return symOrBool(in.TC.Not(x.T))
		}
	case token.SUB:
		switch x := x.(type) {
		case int64:
			return normInt(basicOf(instr.X.Type()).Kind(), -x)
		case float64:
			return -x
		case *Sym:
			if x.T.Sort.K == SInt {
				return &Sym{T: in.TC.App(IntSort, "-", x.T)}
			}
			return &Sym{T: in.TC.App(x.T.Sort, "bvneg", x.T)}
		}
	case token.XOR:
		switch x := x.(type) {
		case int64:
			return normInt(basicOf(instr.X.Type()).Kind(), ^x)
		case *Sym:
			if x.T.Sort.K == SBV {
				return &Sym{T: in.TC.App(x.T.Sort, "bvnot", x.T)}
			}
		}
	}
	panic(unsupported{fmt.Sprintf("unary op %s on %T", instr.Op, x)})
}

// ---- binary ----

func (in *Interp) binop(op token.Token, tx, ty types.Type, x, y value) value {
	// engine types
	if tmx, ok := x.(Tm); ok {
		tmy := y.(Tm)
		eq := in.tmEq(tmx, tmy)
		switch op {
		case token.EQL:
			return eq
		case token.NEQ:
			return in.not(eq)
		}
	}
	// pointer / interface / aggregate equality
	switch op {
	case token.EQL:
		return in.equalsV(tx, x, y)
	case token.NEQ:
		return in.not(in.equalsV(tx, x, y))
	}
	switch xv := x.(type) {
	case float64:
		yv := y.(float64)
		f32 := basicOf(tx) != nil && basicOf(tx).Kind() == types.Float32
		r := func(f float64) value {
			if f32 {
				return float64(float32(f))
			}
			return f
		}
		switch op {
		case token.ADD:
			return r(xv + yv)
		case token.SUB:
			return r(xv - yv)
		case token.MUL:
			return r(xv * yv)
		case token.QUO:
			return r(xv / yv)
		case token.LSS:
			return xv < yv
		case token.LEQ:
			return xv <= yv
		case token.GTR:
			return xv > yv
		case token.GEQ:
			return xv >= yv
		}
	case string, *SymStr:
		return in.strBinop(op, x, y)
	case bool:
		// && and || are compiled to control flow; & | ^ on bools do not exist.
	}
	// integers
	b := basicOf(tx)
	if b == nil {
		panic(unsupported{fmt.Sprintf("binop %s on %v (%T, %T)", op, tx, x, y)})
	}
	k := b.Kind()
	w, signed := intInfo(k)
	if w == 0 {
		panic(unsupported{fmt.Sprintf("binop %s on %v (%T, %T)", op, tx, x, y)})
	}
	xi, xc := x.(int64)
	yi, yc := y.(int64)
	if xc && yc {
		return in.intBinop(op, k, w, signed, xi, yi, ty)
	}
	return in.symIntBinop(op, k, w, signed, x, y, ty)
}

func (in *Interp) not(v value) value {
	switch v := v.(type) {
	case bool:
		return !v
	case *Sym:
		return symOrBool(in.TC.Not(v.T))
	}
	panic("not")
}

func (in *Interp) intBinop(op token.Token, k types.BasicKind, w int, signed bool, x, y int64, ty types.Type) value {
	ux, uy := uint64(x), uint64(y)
	switch op {
	case token.ADD:
		return normInt(k, x+y)
	case token.SUB:
		return normInt(k, x-y)
	case token.MUL:
		return normInt(k, x*y)
	case token.QUO:
		if y == 0 {
			in.rtPanic("integer divide by zero")
		}
		if signed {
			if y == -1 {
				return normInt(k, -x)
			}
			return normInt(k, x/y)
		}
		return normInt(k, int64(ux/uy))
	case token.REM:
		if y == 0 {
			in.rtPanic("integer divide by zero")
		}
		if signed {
			if y == -1 {
				return int64(0)
			}
			return normInt(k, x%y)
		}
		return normInt(k, int64(ux%uy))
	case token.AND:
		return normInt(k, x&y)
	case token.OR:
		return normInt(k, x|y)
	case token.XOR:
		return normInt(k, x^y)
	case token.AND_NOT:
		return normInt(k, x&^y)
	case token.SHL, token.SHR:
		// shift count: type ty (any integer type)
		yb := basicOf(ty)
		_, ysigned := intInfo(yb.Kind())
		if ysigned && y < 0 {
			in.rtPanic("negative shift amount")
		}
		var n uint64 = uy
		if op == token.SHL {
			if n >= 64 {
				return int64(0)
			}
			return normInt(k, x<<n)
		}
		if signed {
			if n >= 64 {
				n = 63
			}
			return normInt(k, x>>n)
		}
		if n >= 64 {
			return int64(0)
		}
		return normInt(k, int64(ux>>n))
	case token.LSS:
		if signed {
			return x < y
		}
		return ux < uy
	case token.LEQ:
		if signed {
			return x <= y
		}
		return ux <= uy
	case token.GTR:
		if signed {
			return x > y
		}
		return ux > uy
	case token.GEQ:
		if signed {
			return x >= y
		}
		return ux >= uy
	}
	panic(unsupported{fmt.Sprintf("int binop %s", op)})
}

func (in *Interp) symIntBinop(op token.Token, k types.BasicKind, w int, signed bool, x, y value, ty types.Type) value {
	tc := in.TC
	sort, _ := symSort(x, y)
	// mixed Int/BV: prefer Int when one is Int-sorted
	if sx, ok := x.(*Sym); ok {
		if sy, ok := y.(*Sym); ok && sx.T.Sort != sy.T.Sort {
			if sx.T.Sort.K == SInt || sy.T.Sort.K == SInt {
				sort = IntSort
			}
		}
	}
	if op == token.SHL || op == token.SHR {
		return in.symShift(op, w, signed, x, y, ty)
	}
	if sort.K == SInt {
		a, b := in.toTermSigned(x, IntSort, signed), in.toTermSigned(y, IntSort, signed)
		switch op {
		case token.ADD:
			return &Sym{T: tc.App(IntSort, "+", a, b)}
		case token.SUB:
			return &Sym{T: tc.App(IntSort, "-", a, b)}
		case token.MUL:
			return &Sym{T: tc.App(IntSort, "*", a, b)}
		case token.QUO, token.REM:
			if !in.branch(tc.Not(tc.Eq(b, IntConst(0)))) {
				in.rtPanic("integer divide by zero")
			}
			// Go truncated division from SMT floor division
			q := in.truncDiv(a, b)
			if op == token.QUO {
				return &Sym{T: q}
			}
			return &Sym{T: tc.App(IntSort, "-", a, tc.App(IntSort, "*", b, q))}
		case token.LSS:
			return symOrBool(tc.App(BoolSort, "<", a, b))
		case token.LEQ:
			return symOrBool(tc.App(BoolSort, "<=", a, b))
		case token.GTR:
			return symOrBool(tc.App(BoolSort, ">", a, b))
		case token.GEQ:
			return symOrBool(tc.App(BoolSort, ">=", a, b))
		}
		panic(unsupported{fmt.Sprintf("bit operation %s on Int-backed symbolic integer", op)})
	}
	// comparisons of a known ASCII digit character with a constant / another digit: stay in LIA
	if op == token.LSS || op == token.LEQ || op == token.GTR || op == token.GEQ {
		ci := func(v value) *Term {
			switch v := v.(type) {
			case int64:
				return IntConst(v)
			case *Sym:
				if d, ok := tc.DigitOf(v.T); ok {
					return tc.App(IntSort, "+", IntConst(48), d)
				}
			}
			return nil
		}
		if xa, ya := ci(x), ci(y); xa != nil && ya != nil {
			name := map[token.Token]string{token.LSS: "<", token.LEQ: "<=", token.GTR: ">", token.GEQ: ">="}[op]
			return symOrBool(tc.App(BoolSort, name, xa, ya))
		}
	}
	s := BV(w)
	a, b := in.toTermSigned(x, s, signed), in.toTermSigned(y, s, signed)
	bin := func(name string) value { return &Sym{T: tc.App(s, name, a, b)} }
	cmp := func(sn, un string) value {
		if signed {
			return symOrBool(tc.App(BoolSort, sn, a, b))
		}
		return symOrBool(tc.App(BoolSort, un, a, b))
	}
	switch op {
	case token.ADD:
		return bin("bvadd")
	case token.SUB:
		return bin("bvsub")
	case token.MUL:
		return bin("bvmul")
	case token.QUO, token.REM:
		if !in.branch(tc.Not(tc.Eq(b, BVConst(0, w)))) {
			in.rtPanic("integer divide by zero")
		}
		if signed {
			if op == token.QUO {
				return bin("bvsdiv")
			}
			return bin("bvsrem")
		}
		if op == token.QUO {
			return bin("bvudiv")
		}
		return bin("bvurem")
	case token.AND:
		return bin("bvand")
	case token.OR:
		return bin("bvor")
	case token.XOR:
		return bin("bvxor")
	case token.AND_NOT:
		return &Sym{T: tc.App(s, "bvand", a, tc.App(s, "bvnot", b))}
	case token.LSS:
		return cmp("bvslt", "bvult")
	case token.LEQ:
		return cmp("bvsle", "bvule")
	case token.GTR:
		return cmp("bvsgt", "bvugt")
	case token.GEQ:
		return cmp("bvsge", "bvuge")
	}
	panic(unsupported{fmt.Sprintf("sym int binop %s", op)})
}

func (in *Interp) toTermSigned(v value, s Sort, signed bool) *Term {
	if sv, ok := v.(*Sym); ok && sv.T.Sort != s {
		return in.coerce(sv.T, s, signed)
	}
	return in.toTerm(v, s)
}

// truncDiv returns Go's truncated quotient a/b on Int terms (b != 0).
func (in *Interp) truncDiv(a, b *Term) *Term {
	tc := in.TC
	// SMT div is floor for positive divisor, and rounds such that remainder is non-negative
	// in general: a = b*div + mod, 0 <= mod < |b|.  trunc(a/b) = sign(a)sign(b) * (|a| div |b|)
	absA := tc.Ite(tc.App(BoolSort, ">=", a, IntConst(0)), a, tc.App(IntSort, "-", a))
	absB := tc.Ite(tc.App(BoolSort, ">=", b, IntConst(0)), b, tc.App(IntSort, "-", b))
	q := tc.App(IntSort, "div", absA, absB)
	sameSign := tc.Eq(tc.App(BoolSort, ">=", a, IntConst(0)), tc.App(BoolSort, ">=", b, IntConst(0)))
	return tc.Ite(sameSign, q, tc.App(IntSort, "-", q))
}

func (in *Interp) symShift(op token.Token, w int, signed bool, x, y value, ty types.Type) value {
	tc := in.TC
	yb := basicOf(ty)
	wy, ysigned := intInfo(yb.Kind())
	if ys, ok := y.(*Sym); ok && ysigned {
		if ys.T.Sort.K == SBV {
			if in.branch(tc.App(BoolSort, "bvslt", ys.T, BVConst(0, wy))) {
				in.rtPanic("negative shift amount")
			}
		}
	}
	if yi, ok := y.(int64); ok && ysigned && yi < 0 {
		in.rtPanic("negative shift amount")
	}
	W := w
	if wy > W {
		W = wy
	}
	if sx, ok := x.(*Sym); ok && sx.T.Sort.K == SInt {
		panic(unsupported{"shift of Int-backed symbolic integer"})
	}
	a := in.resize(in.toTermSigned(x, BV(w), signed), W, signed)
	b := in.resize(in.toTermSigned(y, BV(wy), false), W, false)
	var r *Term
	switch {
	case op == token.SHL:
		r = tc.App(BV(W), "bvshl", a, b)
	case signed:
		r = tc.App(BV(W), "bvashr", a, b)
	default:
		r = tc.App(BV(W), "bvlshr", a, b)
	}
	return &Sym{T: in.resize(r, w, signed)}
}

// ---- equality ----

// equalsV implements == for any comparable type, symbolic aware. Returns bool or *Sym.
func (in *Interp) equalsV(t types.Type, x, y value) value {
	switch xv := x.(type) {
	case nil:
		return y == nil
	case bool:
		switch yv := y.(type) {
		case bool:
			return xv == yv
		case *Sym:
			return symOrBool(in.TC.Eq(BoolConst(xv), yv.T))
		}
	case int64:
		switch yv := y.(type) {
		case int64:
			return xv == yv
		case *Sym:
			if d, ok := in.TC.DigitOf(yv.T); ok {
				return symOrBool(in.TC.Eq(d, IntConst(xv-48)))
			}
			return symOrBool(in.TC.Eq(in.toTerm(xv, yv.T.Sort), yv.T))
		}
	case *Sym:
		if d, ok := in.TC.DigitOf(xv.T); ok {
			switch yv := y.(type) {
			case int64:
				return symOrBool(in.TC.Eq(d, IntConst(yv-48)))
			case *Sym:
				if d2, ok := in.TC.DigitOf(yv.T); ok {
					return symOrBool(in.TC.Eq(d, d2))
				}
			}
		}
		switch yv := y.(type) {
		case *Sym:
			if xv.T.Sort != yv.T.Sort {
				if xv.T.Sort.K == SBool || yv.T.Sort.K == SBool {
					panic("equals: bool vs int")
				}
				return symOrBool(in.TC.Eq(in.coerce(xv.T, IntSort, true), in.coerce(yv.T, IntSort, true)))
			}
			return symOrBool(in.TC.Eq(xv.T, yv.T))
		default:
			return symOrBool(in.TC.Eq(xv.T, in.toTerm(y, xv.T.Sort)))
		}
	case float64:
		return xv == y.(float64)
	case string, *SymStr:
		return in.strEq(x, y)
	case *value:
		yv, _ := y.(*value)
		return xv == yv
	case structure:
		yv := y.(structure)
		st := t.Underlying().(*types.Struct)
		var acc value = true
		for i := range xv {
			if st.Field(i).Name() == "_" {
				continue
			}
			acc = in.andV(acc, in.equalsV(st.Field(i).Type(), xv[i], yv[i]))
			if b, ok := acc.(bool); ok && !b {
				return false
			}
		}
		return acc
	case array:
		yv := y.(array)
		et := t.Underlying().(*types.Array).Elem()
		var acc value = true
		for i := range xv {
			acc = in.andV(acc, in.equalsV(et, xv[i], yv[i]))
			if b, ok := acc.(bool); ok && !b {
				return false
			}
		}
		return acc
	case iface:
		yv := y.(iface)
		if xv.t == nil || yv.t == nil {
			return xv.t == nil && yv.t == nil
		}
		if !types.Identical(xv.t, yv.t) {
			return false
		}
		if !types.Comparable(xv.t) {
			in.rtPanic("comparing uncomparable type %s", xv.t)
		}
		return in.equalsV(xv.t, xv.v, yv.v)
	case Tm:
		return in.tmEq(xv, y.(Tm))
	case Dec:
		panic(unsupported{"== on decimal.Decimal"})
	case *omap:
		yv, _ := y.(*omap)
		return (xv != nil) == (yv != nil)
	case []value:
		yv, _ := y.([]value)
		return (xv != nil) == (yv != nil)
	case *ssa.Function:
		switch yv := y.(type) {
		case *ssa.Function:
			return (xv != nil) == (yv != nil)
		case *closure:
			return xv != nil
		case *nativeFunc:
			return xv != nil
		}
	case *closure:
		if yf, ok := y.(*ssa.Function); ok {
			return yf != nil
		}
		return true
	case *nativeFunc:
		if yf, ok := y.(*ssa.Function); ok {
			return yf != nil
		}
		return true
	case *native:
		yv, _ := y.(*native)
		return xv == yv
	}
	panic(fmt.Sprintf("equalsV: %T vs %T (%v)", x, y, t))
}

func (in *Interp) andV(a, b value) value {
	if ab, ok := a.(bool); ok {
		if !ab {
			return false
		}
		return b
	}
	if bb, ok := b.(bool); ok {
		if !bb {
			return false
		}
		return a
	}
	return symOrBool(in.TC.And(a.(*Sym).T, b.(*Sym).T))
}

func (in *Interp) orV(a, b value) value {
	if ab, ok := a.(bool); ok {
		if ab {
			return true
		}
		return b
	}
	if bb, ok := b.(bool); ok {
		if bb {
			return true
		}
		return a
	}
	return symOrBool(in.TC.Or(a.(*Sym).T, b.(*Sym).T))
}

// ---- conversions ----

func (in *Interp) conv(tdst, tsrc types.Type, x value) value {
	ud := tdst.Underlying()
	us := tsrc.Underlying()
	switch ud := ud.(type) {
	case *types.Pointer, *types.Signature, *types.Struct, *types.Map, *types.Chan, *types.Interface, *types.Array:
		return x
	case *types.Slice:
		// string -> []byte / []rune
		if sb, ok := us.(*types.Basic); ok && sb.Info()&types.IsString != 0 {
			ek := ud.Elem().Underlying().(*types.Basic).Kind()
			switch ek {
			case types.Uint8:
				switch s := x.(type) {
				case string:
					r := make([]value, len(s))
					for i := 0; i < len(s); i++ {
						r[i] = int64(s[i])
					}
					return r
				case *SymStr:
					return append([]value(nil), s.E...)
				}
			case types.Int32:
				switch s := x.(type) {
				case string:
					var r []value
					for _, c := range s {
						r = append(r, int64(c))
					}
					if r == nil {
						r = []value{}
					}
					return r
				case *SymStr:
					r := []value{}
					it := &strIter{in: in, s: s}
					for {
						t := it.next()
						if !t[0].(bool) {
							break
						}
						r = append(r, t[2])
					}
					return r
				}
			}
		}
		return x
	case *types.Basic:
		k := ud.Kind()
		// -> string
		if ud.Info()&types.IsString != 0 {
			switch sx := us.(type) {
			case *types.Basic:
				if sx.Info()&types.IsString != 0 {
					return x
				}
				if sx.Info()&types.IsInteger != 0 {
					switch r := x.(type) {
					case int64:
						if _, signed := intInfo(sx.Kind()); !signed && uint64(r) > 0x10FFFF {
							return string(utf8.RuneError)
						}
						return string(rune(r))
					case *Sym:
						return in.encodeRuneSym(r, sx.Kind())
					}
				}
			case *types.Slice:
				ek := sx.Elem().Underlying().(*types.Basic).Kind()
				sl, _ := x.([]value)
				if ek == types.Uint8 {
					return normStr(append([]value(nil), sl...))
				}
				if ek == types.Int32 {
					var out []value
					for _, r := range sl {
						switch r := r.(type) {
						case int64:
							for _, b := range []byte(string(rune(r))) {
								out = append(out, int64(b))
							}
						case *Sym:
							e := in.encodeRuneSym(r, types.Int32)
							switch e := e.(type) {
							case string:
								for i := 0; i < len(e); i++ {
									out = append(out, int64(e[i]))
								}
							case *SymStr:
								out = append(out, e.E...)
							}
						}
					}
					return normStr(out)
				}
			}
			panic(unsupported{fmt.Sprintf("conversion %v -> string", tsrc)})
		}
		sb, ok := us.(*types.Basic)
		if !ok {
			if k == types.UnsafePointer {
				return x
			}
			panic(unsupported{fmt.Sprintf("conversion %v -> %v", tsrc, tdst)})
		}
		sk := sb.Kind()
		switch {
		case isIntKind(k) && isIntKind(sk):
			switch v := x.(type) {
			case int64:
				return normInt(k, v)
			case *Sym:
				if v.T.Sort.K == SInt {
					return v // Int-backed: value preserved (ranges are small by construction)
				}
				w, _ := intInfo(k)
				_, ssigned := intInfo(sk)
				return &Sym{T: in.resize(v.T, w, ssigned)}
			}
		case isIntKind(k) && (sk == types.Float64 || sk == types.Float32 || sk == types.UntypedFloat):
			f := x.(float64)
			if _, signed := intInfo(k); signed {
				return normInt(k, int64(f))
			}
			return normInt(k, int64(uint64(f)))
		case (k == types.Float64 || k == types.Float32) && isIntKind(sk):
			v, ok := x.(int64)
			if !ok {
				panic(unsupported{"symbolic integer converted to float"})
			}
			var f float64
			if w, signed := intInfo(sk); !signed && w == 64 {
				f = float64(uint64(v))
			} else {
				f = float64(v)
			}
			if k == types.Float32 {
				f = float64(float32(f))
			}
			return f
		case (k == types.Float64 || k == types.Float32) && (sk == types.Float64 || sk == types.Float32 || sk == types.UntypedFloat):
			f := x.(float64)
			if k == types.Float32 {
				return float64(float32(f))
			}
			return f
		case k == types.Bool:
			return x
		case k == types.UnsafePointer:
			return x
		}
	}
	panic(unsupported{fmt.Sprintf("conversion %v -> %v (%T)", tsrc, tdst, x)})
}

var _ = math.MaxInt64
