package sym

import (
	"fmt"
	"math/big"
	"math/rand"
	"testing"
	"time"

	"github.com/shopspring/decimal"
)

// TestStubTime compares the calendar model with the real time package on every
// day of years 1..9999.
func TestStubTime(t *testing.T) {
	n := int64(0)
	d := time.Date(1, 1, 1, 0, 0, 0, 0, time.UTC)
	end := time.Date(9999, 12, 31, 0, 0, 0, 0, time.UTC)
	for !d.After(end) {
		y, m, dd := d.Date()
		cy, cm, cd := civilFromDays(n)
		if int64(y) != cy || int64(m) != cm || int64(dd) != cd {
			t.Fatalf("civilFromDays(%d) = %d-%d-%d, want %v", n, cy, cm, cd, d)
		}
		if daysFromCivil(cy, cm, cd) != n {
			t.Fatalf("daysFromCivil(%v) = %d want %d", d, daysFromCivil(cy, cm, cd), n)
		}
		if int64(d.Weekday()) != ((n+1)%7+7)%7 {
			t.Fatalf("weekday(%v)", d)
		}
		d = d.AddDate(0, 0, 1)
		n++
	}
	if n != 3652059 {
		t.Fatalf("days = %d", n)
	}
	// month/day normalisation as time.Date does it
	rng := rand.New(rand.NewSource(1))
	for i := 0; i < 300000; i++ {
		y := int64(rng.Intn(9000) + 500)
		m := int64(rng.Intn(61) - 24)
		dd := int64(rng.Intn(801) - 400)
		want := time.Date(int(y), time.Month(m), int(dd), 0, 0, 0, 0, time.UTC)
		got := Tm{C: daysFromCivil(y, m, dd)}.goTime()
		if !got.Equal(want) {
			t.Fatalf("Date(%d,%d,%d): model %v real %v", y, m, dd, got, want)
		}
	}
}

func randDec(rng *rand.Rand) decimal.Decimal {
	switch rng.Intn(8) {
	case 0:
		return decimal.Zero
	case 1:
		return decimal.New(int64(rng.Intn(2000)-1000), int32(-rng.Intn(4)))
	case 2:
		// x.5 boundaries
		return decimal.New(int64(rng.Intn(2000)-1000)*10+5, int32(-1-rng.Intn(9)))
	case 3:
		return decimal.New(rng.Int63n(1e18)-5e17, int32(-rng.Intn(12)))
	case 4:
		return decimal.New(int64(rng.Intn(200)-100), int32(rng.Intn(3)))
	default:
		return decimal.New(rng.Int63n(2e9)-1e9, int32(-rng.Intn(10)))
	}
}

// TestStubDecimal pushes random operands through both the real shopspring
// library and the SMT definitions of the stub (evaluated by z3 on constants
// bound to declared variables, so no constant folding in the engine hides a
// wrong term).
func TestStubDecimal(t *testing.T) {
	tc := NewTermCtx()
	s, err := NewSolver("z3", 20000, tc, nil)
	if err != nil {
		t.Skip("no z3")
	}
	defer s.Close()
	in := &Interp{TC: tc, Solver: s}
	rng := rand.New(rand.NewSource(7))
	type tcase struct {
		name string
		want string
		term *Term
		sc   int64
		real bool
	}
	var cases []tcase
	var asserts []*Term
	mkSym := func(i int, nm string, d decimal.Decimal, asReal bool) Dec {
		coef, sc := concScaled(Dec{C: d})
		if asReal {
			v := tc.Declare(fmt.Sprintf("r%s%d", nm, i), RealSort)
			asserts = append(asserts, tc.Eq(v, RealConstRat(d.Rat())))
			return Dec{T: v}
		}
		v := tc.Declare(fmt.Sprintf("i%s%d", nm, i), IntSort)
		asserts = append(asserts, tc.Eq(v, IntConstBig(coef)))
		return Dec{I: v, S: sc}
	}
	add := func(name string, want decimal.Decimal, got Dec) {
		c := tcase{name: name, want: want.String()}
		if got.I != nil {
			c.term, c.sc = got.I, got.S
		} else if got.T != nil {
			c.term, c.real = got.T, true
		} else {
			c.term, c.real = RealConstRat(got.C.Rat()), true
		}
		cases = append(cases, c)
	}
	N := 400
	for i := 0; i < N; i++ {
		a, b := randDec(rng), randDec(rng)
		p := int64(rng.Intn(10))
		asReal := i%3 == 0
		x := mkSym(i, "x", a, asReal)
		y := Dec{C: b}
		add(fmt.Sprintf("Add(%s,%s)", a, b), a.Add(b), in.decAdd(x, y, false))
		add(fmt.Sprintf("Sub(%s,%s)", a, b), a.Sub(b), in.decAdd(x, y, true))
		add(fmt.Sprintf("Mul(%s,%s)", a, b), a.Mul(b), in.decMul(x, y))
		add(fmt.Sprintf("Neg(%s)", a), a.Neg(), in.decNeg(x))
		add(fmt.Sprintf("Truncate(%s,%d)", a, p), a.Truncate(int32(p)), in.decRounded(x, p, "trunc"))
		add(fmt.Sprintf("Round(%s,%d)", a, p), a.Round(int32(p)), in.decRounded(x, p, "round"))
		add(fmt.Sprintf("RoundFloor(%s,%d)", a, p), a.RoundFloor(int32(p)), in.decRounded(x, p, "floor"))
		add(fmt.Sprintf("RoundCeil(%s,%d)", a, p), a.RoundCeil(int32(p)), in.decRounded(x, p, "ceil"))
		add(fmt.Sprintf("RoundUp(%s,%d)", a, p), a.RoundUp(int32(p)), in.decRounded(x, p, "up"))
		add(fmt.Sprintf("RoundBank(%s,%d)", a, p), a.RoundBank(int32(p)), in.decRounded(x, p, "bank"))
		if !b.IsZero() {
			add(fmt.Sprintf("DivRound(%s,%s,16)", a, b), a.DivRound(b, 16), in.decQuo(x, y, 16, "round"))
			q, r := a.QuoRem(b, int32(p%3))
			gq := in.decQuo(x, y, p%3, "trunc")
			add(fmt.Sprintf("QuoRem.q(%s,%s,%d)", a, b, p%3), q, gq)
			add(fmt.Sprintf("QuoRem.r(%s,%s,%d)", a, b, p%3), r, in.decAdd(x, in.decMul(gq, y), true))
			// symbolic divisor (Real path)
			ys := mkSym(i, "y", b, true)
			add(fmt.Sprintf("DivRound(%s,sym %s,16)", a, b), a.DivRound(b, 16), in.decQuo(x, ys, 16, "round"))
		}
	}
	for _, a := range asserts {
		s.Assert(a)
	}
	bad := 0
	for i := 0; i < len(cases); i += 25 {
		j := i + 25
		if j > len(cases) {
			j = len(cases)
		}
		var terms []*Term
		for _, c := range cases[i:j] {
			terms = append(terms, c.term)
		}
		res, vals := s.CheckModel(nil, terms)
		if res != Sat {
			t.Fatalf("solver %v: %s", res, s.LastError)
		}
		for k, c := range cases[i:j] {
			r, err := parseRatValue(vals[k])
			if err != nil {
				t.Fatalf("%s: %v", c.name, err)
			}
			if !c.real {
				r = new(big.Rat).Mul(r, pow10Rat(-c.sc))
			}
			w, _ := new(big.Rat).SetString(c.want)
			if r.Cmp(w) != 0 {
				bad++
				if bad < 10 {
					t.Errorf("%s: stub term evaluates to %s, library gives %s", c.name, ratDecimalString(r), c.want)
				}
			}
		}
	}
	t.Logf("decimal stub: %d operations compared with the library", len(cases))
}
