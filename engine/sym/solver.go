package sym

import (
	"bufio"
	"fmt"
	"io"
	"os/exec"
	"strings"
	"time"
)

// Result of a solver query.
type Result int

const (
	Unsat Result = iota
	Sat
	Unknown
	SolverError
)

func (r Result) String() string {
	return [...]string{"unsat", "sat", "unknown", "error"}[r]
}

// SolverStats counts queries.
type SolverStats struct {
	Queries   int
	Sat       int
	Unsat     int
	Unknown   int
	Errors    int
	Time      time.Duration
	MaxQuery  time.Duration
}

// Solver is one persistent SMT solver process talked to over stdin/stdout.
type Solver struct {
	Name  string
	cmd   *exec.Cmd
	in    io.WriteCloser
	out   *bufio.Reader
	depth int
	Stats SolverStats
	ctx   *TermCtx
	log   io.Writer
	LastError string
	sentDefs  int
	lines     chan string
	Dead      bool
	timeoutMs int
	curTO     int
	FeasTimeoutMs int // shorter limit for branch-feasibility queries (unknown = keep the branch)
	Mirror        *Solver // optional second solver: receives the same assertion stack; obligations are decided by both
	MirrorStats   struct{ Checked, Agree, Disagree, Unknown int }
	frames        [][]string // shadow of the assertion stack (for fresh-process re-checks)
	FreshStats    struct{ Runs, SatRefuted, SatConfirmed, UnknownDecided, Undecided int }
}

// setTimeout switches the per-query time limit (z3: dynamic option; cvc5: fixed at start).
func (s *Solver) setTimeout(ms int) {
	if ms <= 0 || ms == s.curTO || s.Name == "cvc5" {
		return
	}
	s.curTO = ms
	s.send(fmt.Sprintf("(set-option :timeout %d)", ms))
}

// CheckFeas is Check with the (shorter) feasibility time limit.
func (s *Solver) CheckFeas(extra ...*Term) Result {
	if s.FeasTimeoutMs > 0 {
		s.setTimeout(s.FeasTimeoutMs)
		defer s.setTimeout(s.timeoutMs)
	}
	return s.Check(extra...)
}

// NewSolver starts a solver. kind: "z3", "z3-new", "cvc5".
func NewSolver(kind string, timeoutMs int, ctx *TermCtx, log io.Writer) (*Solver, error) {
	var cmd *exec.Cmd
	switch kind {
	case "z3":
		cmd = exec.Command("z3", "-in", fmt.Sprintf("-t:%d", timeoutMs))
	case "z3-new":
		cmd = exec.Command("z3-new", "-in", fmt.Sprintf("-t:%d", timeoutMs))
	case "cvc5":
		cmd = exec.Command("cvc5", "--incremental", "--lang=smt2", fmt.Sprintf("--tlimit-per=%d", timeoutMs), "--produce-models")
	default:
		return nil, fmt.Errorf("unknown solver %q", kind)
	}
	in, err := cmd.StdinPipe()
	if err != nil {
		return nil, err
	}
	outp, err := cmd.StdoutPipe()
	if err != nil {
		return nil, err
	}
	cmd.Stderr = cmd.Stdout
	if err := cmd.Start(); err != nil {
		return nil, err
	}
	s := &Solver{Name: kind, cmd: cmd, in: in, out: bufio.NewReaderSize(outp, 1<<16), ctx: ctx, log: log, timeoutMs: timeoutMs}
	s.lines = make(chan string, 256)
	go func() {
		for {
			l, err := s.out.ReadString('\n')
			if l != "" {
				s.lines <- strings.TrimRight(l, "\r\n")
			}
			if err != nil {
				close(s.lines)
				return
			}
		}
	}()
	s.send("(set-option :global-declarations true)")
	s.send("(set-option :produce-models true)")
	s.send("(set-logic ALL)")
	return s, nil
}

func (s *Solver) send(line string) {
	if s.Mirror != nil && !strings.HasPrefix(line, "(check-sat") && !strings.HasPrefix(line, "(echo") && !strings.HasPrefix(line, "(get-value") && !strings.HasPrefix(line, "(set-option :timeout") {
		s.Mirror.flushFrom(s)
		s.Mirror.send(line)
	}
	if s.Dead {
		return
	}
	if s.log != nil {
		fmt.Fprintln(s.log, line)
	}
	io.WriteString(s.in, line)
	io.WriteString(s.in, "\n")
}

// flush sends pending declarations/definitions of the term context. Each
// solver keeps its own position in the list.
func (s *Solver) flush() {
	for s.sentDefs < len(s.ctx.defs) {
		s.send(s.ctx.defs[s.sentDefs])
		s.sentDefs++
	}
}

// flushFrom keeps the mirror's definitions in step with the primary's term context.
func (s *Solver) flushFrom(primary *Solver) {
	for s.sentDefs < len(s.ctx.defs) && s.sentDefs < primary.sentDefs {
		d := s.ctx.defs[s.sentDefs]
		s.sentDefs++
		if s.log != nil {
			fmt.Fprintln(s.log, d)
		}
		io.WriteString(s.in, d+"\n")
	}
}

func (s *Solver) readUntilMarker() []string {
	if s.Dead {
		return []string{"(error \"solver process is dead\")"}
	}
	s.send(`(echo "#done#")`)
	var lines []string
	// watchdog: the solver's own per-query timeout is not always honoured
	cur := s.timeoutMs
	if s.curTO > 0 {
		cur = s.curTO
	}
	limit := time.Duration(5*cur+30000) * time.Millisecond // generous: on a loaded machine the solver may be descheduled for seconds
	timer := time.NewTimer(limit)
	defer timer.Stop()
	for {
		select {
		case l, ok := <-s.lines:
			if !ok {
				s.Dead = true
				return append(lines, "(error \"solver pipe closed\")")
			}
			if strings.Contains(l, "#done#") {
				return lines
			}
			if l != "" {
				lines = append(lines, l)
			}
		case <-timer.C:
			s.Dead = true
			s.cmd.Process.Kill()
			return append(lines, "(error \"watchdog: solver did not answer within its time limit; killed\")")
		}
	}
}

func (s *Solver) Push() {
	s.flush()
	s.send("(push 1)")
	s.depth++
	s.frames = append(s.frames, nil)
}

func (s *Solver) Pop(n int) {
	if n <= 0 {
		return
	}
	s.send(fmt.Sprintf("(pop %d)", n))
	s.depth -= n
	if n < len(s.frames) {
		s.frames = s.frames[:len(s.frames)-n]
	} else {
		s.frames = s.frames[:1]
		s.frames[0] = nil
	}
}

func (s *Solver) Depth() int { return s.depth }

func (s *Solver) Assert(t *Term) {
	s.flush()
	s.send("(assert " + t.S + ")")
	if len(s.frames) == 0 {
		s.frames = [][]string{nil}
	}
	s.frames[len(s.frames)-1] = append(s.frames[len(s.frames)-1], t.S)
}

// FreshCheck decides the current assertion stack plus extra in a new solver
// process (no incremental state): a long push/pop session can leave z3 4.8.12 in
// a state in which it answers sat (with a model violating asserted constraints)
// or unknown for queries it decides at once from scratch. kind: solver binary.
func (s *Solver) FreshCheck(kind string, timeoutMs int, extra []*Term, eval []*Term) (Result, []string) {
	s.flush()
	var b strings.Builder
	b.WriteString("(set-option :produce-models true)\n(set-logic ALL)\n")
	for _, d := range s.ctx.defs[:s.sentDefs] {
		b.WriteString(d)
		b.WriteByte('\n')
	}
	for _, f := range s.frames {
		for _, a := range f {
			b.WriteString("(assert " + a + ")\n")
		}
	}
	for _, e := range extra {
		b.WriteString("(assert " + e.S + ")\n")
	}
	b.WriteString("(check-sat)\n(echo \"#model#\")\n")
	for i := 0; i < len(eval); i += 20 {
		j := i + 20
		if j > len(eval) {
			j = len(eval)
		}
		b.WriteString("(get-value (")
		for _, e := range eval[i:j] {
			b.WriteString(e.S)
			b.WriteByte(' ')
		}
		b.WriteString("))\n(echo \"#chunk#\")\n")
	}
	var cmd *exec.Cmd
	switch kind {
	case "z3", "z3-new":
		cmd = exec.Command(kind, "-in", fmt.Sprintf("-t:%d", timeoutMs))
	case "cvc5":
		cmd = exec.Command("cvc5", "--lang=smt2", fmt.Sprintf("--tlimit-per=%d", timeoutMs), "--produce-models")
	default:
		return SolverError, nil
	}
	cmd.Stdin = strings.NewReader(b.String())
	done := make(chan struct{})
	var out []byte
	go func() { out, _ = cmd.CombinedOutput(); close(done) }()
	select {
	case <-done:
	case <-time.After(time.Duration(3*timeoutMs+5000) * time.Millisecond):
		if cmd.Process != nil {
			cmd.Process.Kill()
		}
		<-done
		return Unknown, nil
	}
	s.FreshStats.Runs++
	parts := strings.SplitN(string(out), "#model#", 2)
	r, _ := classify(strings.Split(strings.TrimSpace(parts[0]), "\n"))
	if r != Sat || len(eval) == 0 || len(parts) < 2 {
		return r, nil
	}
	var vals []string
	for _, chunk := range strings.Split(parts[1], "#chunk#") {
		chunk = strings.TrimSpace(chunk)
		if chunk == "" {
			continue
		}
		if strings.Contains(chunk, "(error") {
			return SolverError, nil
		}
		vals = append(vals, parseGetValue(strings.ReplaceAll(chunk, "\n", " "))...)
	}
	if len(vals) != len(eval) {
		return SolverError, nil
	}
	return Sat, vals
}

func classify(lines []string) (Result, string) {
	res := Unknown
	got := false
	for _, l := range lines {
		if strings.HasPrefix(l, "(error") {
			return SolverError, l
		}
		switch l {
		case "sat":
			res, got = Sat, true
		case "unsat":
			res, got = Unsat, true
		case "unknown":
			res, got = Unknown, true
		}
	}
	if !got {
		return SolverError, strings.Join(lines, " | ")
	}
	return res, ""
}

// Check decides satisfiability of the current assertion stack plus extra.
func (s *Solver) Check(extra ...*Term) Result {
	s.flush()
	t0 := time.Now()
	if len(extra) > 0 {
		s.send("(push 1)")
		for _, e := range extra {
			s.send("(assert " + e.S + ")")
		}
	}
	s.send("(check-sat)")
	lines := s.readUntilMarker()
	if len(extra) > 0 {
		s.send("(pop 1)")
	}
	r, msg := classify(lines)
	d := time.Since(t0)
	if s.log != nil {
		fmt.Fprintf(s.log, "; ^ check: %s in %d ms\n", r, d.Milliseconds())
	}
	s.Stats.Queries++
	s.Stats.Time += d
	if d > s.Stats.MaxQuery {
		s.Stats.MaxQuery = d
	}
	switch r {
	case Sat:
		s.Stats.Sat++
	case Unsat:
		s.Stats.Unsat++
	case Unknown:
		s.Stats.Unknown++
	default:
		s.Stats.Errors++
		s.LastError = msg
	}
	return r
}

// CheckModel is like Check but on sat also evaluates the given terms in the
// model (before popping the extra assertions).
func (s *Solver) CheckModel(extra []*Term, eval []*Term) (Result, []string) {
	s.flush()
	t0 := time.Now()
	s.send("(push 1)")
	for _, e := range extra {
		s.send("(assert " + e.S + ")")
	}
	s.send("(check-sat)")
	lines := s.readUntilMarker()
	r, msg := classify(lines)
	if s.Mirror != nil && !s.Mirror.Dead && (r == Sat || r == Unsat) {
		// the second solver decides the same obligation on the same assertion stack
		s.Mirror.flushFrom(s)
		s.Mirror.send("(check-sat)")
		mr, _ := classify(s.Mirror.readUntilMarker())
		s.MirrorStats.Checked++
		switch {
		case mr == r:
			s.MirrorStats.Agree++
		case mr == Sat || mr == Unsat:
			s.MirrorStats.Disagree++
			r, msg = SolverError, fmt.Sprintf("solver disagreement: %s says %s, %s says %s", s.Name, r, s.Mirror.Name, mr)
		default:
			s.MirrorStats.Unknown++
		}
	}
	var vals []string
	if r == Sat && len(eval) > 0 {
		vals = make([]string, len(eval))
		// query in chunks to keep lines short
		for i := 0; i < len(eval); i += 20 {
			j := i + 20
			if j > len(eval) {
				j = len(eval)
			}
			var b strings.Builder
			b.WriteString("(get-value (")
			for _, e := range eval[i:j] {
				b.WriteString(e.S)
				b.WriteByte(' ')
			}
			b.WriteString("))")
			s.send(b.String())
			out := strings.Join(s.readUntilMarker(), " ")
			if strings.Contains(out, "(error") {
				r, msg = SolverError, out
				break
			}
			pairs := parseGetValue(out)
			if len(pairs) != j-i {
				r, msg = SolverError, "get-value: unexpected answer: "+out
				break
			}
			copy(vals[i:j], pairs)
		}
	}
	s.send("(pop 1)")
	d := time.Since(t0)
	s.Stats.Queries++
	s.Stats.Time += d
	if d > s.Stats.MaxQuery {
		s.Stats.MaxQuery = d
	}
	switch r {
	case Sat:
		s.Stats.Sat++
	case Unsat:
		s.Stats.Unsat++
	case Unknown:
		s.Stats.Unknown++
	default:
		s.Stats.Errors++
		s.LastError = msg
	}
	return r, vals
}

func (s *Solver) Close() {
	if s.Mirror != nil {
		s.Mirror.Close()
	}
	if s.cmd != nil {
		s.in.Close()
		s.cmd.Process.Kill()
		s.cmd.Wait()
		s.cmd = nil
	}
}

// ---- s-expression parsing of (get-value ...) answers ----

type sexp struct {
	atom string
	list []*sexp
}

func parseSexp(s string, i int) (*sexp, int) {
	for i < len(s) && (s[i] == ' ' || s[i] == '\n' || s[i] == '\t') {
		i++
	}
	if i >= len(s) {
		return nil, i
	}
	if s[i] == '(' {
		i++
		e := &sexp{list: []*sexp{}}
		for {
			for i < len(s) && (s[i] == ' ' || s[i] == '\n' || s[i] == '\t') {
				i++
			}
			if i >= len(s) {
				return e, i
			}
			if s[i] == ')' {
				return e, i + 1
			}
			var c *sexp
			c, i = parseSexp(s, i)
			if c == nil {
				return e, i
			}
			e.list = append(e.list, c)
		}
	}
	j := i
	if s[i] == '|' {
		j = i + 1
		for j < len(s) && s[j] != '|' {
			j++
		}
		j++
	} else {
		for j < len(s) && s[j] != ' ' && s[j] != ')' && s[j] != '(' && s[j] != '\n' {
			j++
		}
	}
	return &sexp{atom: s[i:j]}, j
}

func (e *sexp) String() string {
	if e.list == nil {
		return e.atom
	}
	parts := make([]string, len(e.list))
	for i, c := range e.list {
		parts[i] = c.String()
	}
	return "(" + strings.Join(parts, " ") + ")"
}

// parseGetValue returns the value texts of ((t1 v1) (t2 v2) ...).
func parseGetValue(out string) []string {
	e, _ := parseSexp(out, 0)
	if e == nil || e.list == nil {
		return nil
	}
	var vals []string
	for _, p := range e.list {
		if len(p.list) != 2 {
			return nil
		}
		vals = append(vals, p.list[1].String())
	}
	return vals
}
