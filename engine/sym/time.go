package sym

import (
	"fmt"
	"time"

	"golang.org/x/tools/go/ssa"
)

// Proleptic Gregorian calendar, day 0 = 0001-01-01 (the zero time.Time).

func isLeap(y int64) bool { return y%4 == 0 && (y%100 != 0 || y%400 == 0) }

var cumDays = [13]int64{0, 31, 59, 90, 120, 151, 181, 212, 243, 273, 304, 334, 365}

// daysFromCivil returns the day number of y-m-1 plus (d-1), with month
// normalisation exactly as time.Date does (months outside 1..12 roll over).
func daysFromCivil(y, m, d int64) int64 {
	m0 := m - 1
	y += m0 / 12
	m0 %= 12
	if m0 < 0 {
		m0 += 12
		y--
	}
	// days before year y
	y1 := y - 1
	n := y1*365 + floorDiv(y1, 4) - floorDiv(y1, 100) + floorDiv(y1, 400)
	n += cumDays[m0]
	if m0 >= 2 && isLeap(y) {
		n++
	}
	return n + d - 1
}

func floorDiv(a, b int64) int64 {
	q := a / b
	if (a%b != 0) && ((a < 0) != (b < 0)) {
		q--
	}
	return q
}

func civilFromDays(n int64) (y, m, d int64) {
	// 400-year cycles
	const d400 = 146097
	c := floorDiv(n, d400)
	r := n - c*d400
	y = c*400 + 1
	// r in [0, 146097)
	c100 := r / 36524
	if c100 == 4 {
		c100 = 3
	}
	r -= c100 * 36524
	c4 := r / 1461
	r -= c4 * 1461
	c1 := r / 365
	if c1 == 4 {
		c1 = 3
	}
	r -= c1 * 365
	y += c100*100 + c4*4 + c1
	leap := isLeap(y)
	for m = 1; m <= 12; m++ {
		dm := cumDays[m] - cumDays[m-1]
		if m == 2 && leap {
			dm++
		}
		if r < dm {
			break
		}
		r -= dm
	}
	return y, m, r + 1
}

func tmFromGo(t time.Time) Tm {
	y, m, d := t.Date()
	return Tm{C: daysFromCivil(int64(y), int64(m), int64(d))}
}

func (t Tm) goTime() time.Time {
	y, m, d := civilFromDays(t.C)
	return time.Date(int(y), time.Month(m), int(d), 0, 0, 0, 0, time.UTC)
}

func (in *Interp) tmTerm(t Tm) *Term {
	if t.T != nil {
		return t.T
	}
	return IntConst(t.C)
}

func (in *Interp) tmCmp(op string, a, b Tm) value {
	if a.T == nil && b.T == nil {
		switch op {
		case "<":
			return a.C < b.C
		case ">":
			return a.C > b.C
		case "=":
			return a.C == b.C
		}
	}
	if op == "=" {
		return symOrBool(in.TC.Eq(in.tmTerm(a), in.tmTerm(b)))
	}
	return symOrBool(in.TC.App(BoolSort, op, in.tmTerm(a), in.tmTerm(b)))
}

func (in *Interp) tmEq(a, b Tm) value { return in.tmCmp("=", a, b) }

// civil returns concrete year and month of t (forking when symbolic) and the
// day of month as a value (int64 or Int-sorted *Sym).
func (in *Interp) civil(t Tm) (y, m int64, d value) {
	if t.T == nil {
		yy, mm, dd := civilFromDays(t.C)
		return yy, mm, dd
	}
	key := t.T.S
	if ym, ok := in.run.tmCivil[key]; ok {
		y, m = ym[0], ym[1]
	} else {
		ylo, _, _ := civilFromDays(t.Lo)
		yhi, _, _ := civilFromDays(t.Hi)
		if yhi-ylo > 40 {
			panic(unsupported{fmt.Sprintf("civil fields of a symbolic date spanning %d years", yhi-ylo)})
		}
		y = yhi
		for yy := ylo; yy < yhi; yy++ {
			if in.branch(in.TC.App(BoolSort, "<", t.T, IntConst(daysFromCivil(yy+1, 1, 1)))) {
				y = yy
				break
			}
		}
		m = 12
		for mm := int64(1); mm < 12; mm++ {
			if in.branch(in.TC.App(BoolSort, "<", t.T, IntConst(daysFromCivil(y, mm+1, 1)))) {
				m = mm
				break
			}
		}
		in.run.tmCivil[key] = [2]int64{y, m}
	}
	first := daysFromCivil(y, m, 1)
	d = &Sym{T: in.TC.App(IntSort, "+", in.TC.App(IntSort, "-", t.T, IntConst(first)), IntConst(1))}
	return
}

// mkDate implements time.Date(y, m, d, 0...) for concrete y, m and possibly symbolic d.
func (in *Interp) mkDate(y, m int64, d value, lo, hi int64) Tm {
	switch d := d.(type) {
	case int64:
		return Tm{C: daysFromCivil(y, m, d)}
	case *Sym:
		base := daysFromCivil(y, m, 1) - 1
		dt := d.T
		if dt.Sort.K != SInt {
			dt = in.coerce(dt, IntSort, true)
		}
		return Tm{T: in.TC.App(IntSort, "+", IntConst(base), dt), Lo: base + lo, Hi: base + hi}
	}
	panic("mkDate")
}

func (in *Interp) intArg(v value, what string) int64 {
	switch v := v.(type) {
	case int64:
		return v
	case *Sym:
		return in.concretize(v, what).(int64)
	}
	panic(fmt.Sprintf("intArg(%s): %T", what, v))
}

func symInt(t *Term) value { return &Sym{T: t} }

func registerTime(in *Interp) {
	I := in.intrinsics
	I["time.Date"] = func(in *Interp, fr *frame, fn *ssa.Function, a []value) value {
		for i := 3; i <= 6; i++ {
			if v, ok := a[i].(int64); !ok || v != 0 {
				panic(unsupported{"time.Date with non-zero clock fields"})
			}
		}
		y := in.intArg(a[0], "year")
		m := in.intArg(a[1], "month")
		switch d := a[2].(type) {
		case int64:
			return Tm{C: daysFromCivil(y, m, d)}
		case *Sym:
			return in.mkDate(y, m, d, -400, 400)
		}
		panic("time.Date day")
	}
	I["(time.Time).AddDate"] = func(in *Interp, fr *frame, fn *ssa.Function, a []value) value {
		t := a[0].(Tm)
		yy, yc := a[1].(int64)
		mm, mc := a[2].(int64)
		if yc && mc && yy == 0 && mm == 0 {
			switch d := a[3].(type) {
			case int64:
				if t.T == nil {
					return Tm{C: t.C + d}
				}
				return Tm{T: in.TC.App(IntSort, "+", t.T, IntConst(d)), Lo: t.Lo + d, Hi: t.Hi + d}
			case *Sym:
				dt := d.T
				if dt.Sort.K != SInt {
					dt = in.coerce(dt, IntSort, true)
				}
				lo, hi := t.Lo, t.Hi
				if t.T == nil {
					lo, hi = t.C, t.C
				}
				return Tm{T: in.TC.App(IntSort, "+", in.tmTerm(t), dt), Lo: lo - 400, Hi: hi + 400}
			}
		}
		if !yc {
			yy = in.intArg(a[1], "AddDate years")
		}
		if !mc {
			mm = in.intArg(a[2], "AddDate months")
		}
		Y, M, D := in.civil(t)
		var dd value
		switch d := a[3].(type) {
		case int64:
			switch D := D.(type) {
			case int64:
				dd = D + d
			case *Sym:
				dd = symInt(in.TC.App(IntSort, "+", D.T, IntConst(d)))
			}
		case *Sym:
			dt := d.T
			if dt.Sort.K != SInt {
				dt = in.coerce(dt, IntSort, true)
			}
			dd = symInt(in.TC.App(IntSort, "+", in.toTerm(D, IntSort), dt))
		}
		return in.mkDate(Y+yy, M+mm, dd, -400, 400)
	}
	I["(time.Time).Year"] = func(in *Interp, fr *frame, fn *ssa.Function, a []value) value {
		y, _, _ := in.civil(a[0].(Tm))
		return y
	}
	I["(time.Time).Month"] = func(in *Interp, fr *frame, fn *ssa.Function, a []value) value {
		_, m, _ := in.civil(a[0].(Tm))
		return m
	}
	I["(time.Time).Day"] = func(in *Interp, fr *frame, fn *ssa.Function, a []value) value {
		_, _, d := in.civil(a[0].(Tm))
		return d
	}
	I["(time.Time).Date"] = func(in *Interp, fr *frame, fn *ssa.Function, a []value) value {
		y, m, d := in.civil(a[0].(Tm))
		return tuple{y, m, d}
	}
	I["(time.Time).Weekday"] = func(in *Interp, fr *frame, fn *ssa.Function, a []value) value {
		t := a[0].(Tm)
		// 0001-01-01 is a Monday (Weekday 1)
		if t.T == nil {
			return ((t.C+1)%7 + 7) % 7
		}
		return symInt(in.TC.App(IntSort, "mod", in.TC.App(IntSort, "+", t.T, IntConst(1)), IntConst(7)))
	}
	cmp := func(op string, negate bool) intrinsicFn {
		return func(in *Interp, fr *frame, fn *ssa.Function, a []value) value {
			r := in.tmCmp(op, a[0].(Tm), a[1].(Tm))
			if negate {
				return in.not(r)
			}
			return r
		}
	}
	I["(time.Time).Before"] = cmp("<", false)
	I["(time.Time).After"] = cmp(">", false)
	I["(time.Time).Equal"] = cmp("=", false)
	I["(time.Time).Compare"] = func(in *Interp, fr *frame, fn *ssa.Function, a []value) value {
		x, y := a[0].(Tm), a[1].(Tm)
		if x.T == nil && y.T == nil {
			switch {
			case x.C < y.C:
				return int64(-1)
			case x.C > y.C:
				return int64(1)
			}
			return int64(0)
		}
		lt := in.TC.App(BoolSort, "<", in.tmTerm(x), in.tmTerm(y))
		gt := in.TC.App(BoolSort, ">", in.tmTerm(x), in.tmTerm(y))
		return symInt(in.TC.Ite(lt, IntConst(-1), in.TC.Ite(gt, IntConst(1), IntConst(0))))
	}
	I["(time.Time).IsZero"] = func(in *Interp, fr *frame, fn *ssa.Function, a []value) value {
		return in.tmCmp("=", a[0].(Tm), Tm{})
	}
	I["(time.Time).Sub"] = func(in *Interp, fr *frame, fn *ssa.Function, a []value) value {
		x, y := a[0].(Tm), a[1].(Tm)
		if x.T == nil && y.T == nil {
			return (x.C - y.C) * 86400 * 1e9
		}
		return symInt(in.TC.App(IntSort, "*", in.TC.App(IntSort, "-", in.tmTerm(x), in.tmTerm(y)), IntConst(86400*1e9)))
	}
	I["(time.Time).Format"] = func(in *Interp, fr *frame, fn *ssa.Function, a []value) value {
		t := in.concreteTm(a[0].(Tm))
		layout, ok := a[1].(string)
		if !ok {
			panic(unsupported{"time.Format with symbolic layout"})
		}
		return t.goTime().Format(layout)
	}
	I["(time.Time).String"] = func(in *Interp, fr *frame, fn *ssa.Function, a []value) value {
		return in.concreteTm(a[0].(Tm)).goTime().String()
	}
	I["(time.Time).Unix"] = func(in *Interp, fr *frame, fn *ssa.Function, a []value) value {
		return in.concreteTm(a[0].(Tm)).goTime().Unix()
	}
	I["(time.Time).Local"] = func(in *Interp, fr *frame, fn *ssa.Function, a []value) value { return a[0] }
	I["(time.Time).UTC"] = func(in *Interp, fr *frame, fn *ssa.Function, a []value) value { return a[0] }
	I["(time.Time).In"] = func(in *Interp, fr *frame, fn *ssa.Function, a []value) value { return a[0] }
	I["time.Parse"] = func(in *Interp, fr *frame, fn *ssa.Function, a []value) value {
		layout, ok1 := a[0].(string)
		s, ok2 := a[1].(string)
		if !ok1 {
			panic(unsupported{"time.Parse with symbolic layout"})
		}
		if !ok2 {
			return in.parseDateSym(fr, layout, a[1].(*SymStr))
		}
		t, err := time.Parse(layout, s)
		if err != nil {
			return tuple{Tm{}, in.makeError(fr, err.Error())}
		}
		if t.Hour() != 0 || t.Minute() != 0 || t.Second() != 0 || t.Nanosecond() != 0 {
			panic(unsupported{"time.Parse yielding a non-midnight time"})
		}
		return tuple{tmFromGo(t), iface{}}
	}
	I["time.Now"] = func(in *Interp, fr *frame, fn *ssa.Function, a []value) value {
		panic(unsupported{"time.Now (environment)"})
	}
	I["(time.Month).String"] = func(in *Interp, fr *frame, fn *ssa.Function, a []value) value {
		return time.Month(in.intArg(a[0], "month")).String()
	}
	I["(time.Weekday).String"] = func(in *Interp, fr *frame, fn *ssa.Function, a []value) value {
		return time.Weekday(in.intArg(a[0], "weekday")).String()
	}
}

// concreteTm concretises a symbolic date by forking (year, month, day).
func (in *Interp) concreteTm(t Tm) Tm {
	if t.T == nil {
		return t
	}
	v := in.concretize(&Sym{T: t.T}, "date").(int64)
	return Tm{C: v}
}

// parseDateSym handles time.Parse("2006-01-02", s) for a symbolic 10-byte string.
func (in *Interp) parseDateSym(fr *frame, layout string, s *SymStr) value {
	if cs, ok := s.concrete(); ok {
		t, err := time.Parse(layout, cs)
		if err != nil {
			return tuple{Tm{}, in.makeError(fr, err.Error())}
		}
		return tuple{tmFromGo(t), iface{}}
	}
	if layout != "2006-01-02" {
		panic(unsupported{"time.Parse of symbolic text with layout " + layout})
	}
	fail := func() value { return tuple{Tm{}, in.makeError(fr, "parsing time: cannot parse symbolic value as \"2006-01-02\"")} }
	if len(s.E) != 10 {
		// time.Parse rejects anything that is not exactly yyyy-mm-dd for this layout
		// (shorter: missing fields; longer: extra text)
		return fail()
	}
	tc := in.TC
	digit := func(e value) (*Term, bool) {
		switch e := e.(type) {
		case int64:
			if e < '0' || e > '9' {
				return nil, false
			}
			return IntConst(e - '0'), true
		case *Sym:
			if d, ok := tc.DigitOf(e.T); ok {
				return d, true
			}
			isd := tc.And(tc.App(BoolSort, "bvule", BVConst('0', 8), e.T), tc.App(BoolSort, "bvule", e.T, BVConst('9', 8)))
			if !in.branch(isd) {
				return nil, false
			}
			return tc.App(IntSort, "-", tc.App(IntSort, "bv2nat", e.T), IntConst('0')), true
		}
		return nil, false
	}
	isByte := func(e value, c byte) bool {
		return in.truth(in.byteEq(e, int64(c)))
	}
	num := func(es []value) (*Term, bool) {
		acc := IntConst(0)
		for _, e := range es {
			d, ok := digit(e)
			if !ok {
				return nil, false
			}
			acc = tc.App(IntSort, "+", tc.App(IntSort, "*", acc, IntConst(10)), d)
		}
		return acc, true
	}
	yT, ok := num(s.E[0:4])
	if !ok || !isByte(s.E[4], '-') {
		return fail()
	}
	mT, ok := num(s.E[5:7])
	if !ok || !isByte(s.E[7], '-') {
		return fail()
	}
	dT, ok := num(s.E[8:10])
	if !ok {
		return fail()
	}
	y := in.concretize(&Sym{T: yT}, "parsed year").(int64)
	m := in.concretize(&Sym{T: mT}, "parsed month").(int64)
	if m < 1 || m > 12 {
		return fail()
	}
	dim := cumDays[m] - cumDays[m-1]
	if m == 2 && isLeap(y) {
		dim++
	}
	okDay := tc.And(tc.App(BoolSort, "<=", IntConst(1), dT), tc.App(BoolSort, "<=", dT, IntConst(dim)))
	if !in.branch(okDay) {
		return fail()
	}
	res := in.mkDate(y, m, &Sym{T: dT}, 1, dim)
	in.run.tmCivil[res.T.S] = [2]int64{y, m}
	return tuple{res, iface{}}
}
