package sym

import (
	"fmt"
	"go/token"
	"go/types"
	"strconv"
	"unicode/utf8"

	"golang.org/x/tools/go/ssa"
)

// Intrinsic model of the fmt verbs knut uses. Formatting of *concrete*
// operands is delegated to the real fmt package verb by verb; symbolic strings
// are spliced in; symbolic integers in messages are rendered as a placeholder
// (message text with symbolic numbers is not compared by any property).

func registerFmt(in *Interp) {
	I := in.intrinsics
	I["fmt.Sprintf"] = func(in *Interp, fr *frame, fn *ssa.Function, a []value) value {
		s, _ := in.sprintf(fr, a[0], sliceArg(a[1]))
		return s
	}
	I["fmt.Errorf"] = func(in *Interp, fr *frame, fn *ssa.Function, a []value) value {
		s, wrapped := in.sprintf(fr, a[0], sliceArg(a[1]))
		if wrapped != nil {
			pkg := in.Prog.ImportedPackage("fmt")
			if pkg != nil && pkg.Type("wrapError") != nil {
				t := pkg.Type("wrapError").Object().Type()
				var cell value = structure{s, *wrapped}
				return iface{t: types.NewPointer(t), v: &cell}
			}
		}
		return in.makeError(fr, s)
	}
	I["fmt.Sprint"] = func(in *Interp, fr *frame, fn *ssa.Function, a []value) value {
		return in.sprint(fr, sliceArg(a[0]), false)
	}
	I["fmt.Sprintln"] = func(in *Interp, fr *frame, fn *ssa.Function, a []value) value {
		return in.sprint(fr, sliceArg(a[0]), true)
	}
	I["fmt.Fprintf"] = func(in *Interp, fr *frame, fn *ssa.Function, a []value) value {
		s, _ := in.sprintf(fr, a[1], sliceArg(a[2]))
		return in.writeTo(fr, a[0].(iface), s)
	}
	I["fmt.Fprint"] = func(in *Interp, fr *frame, fn *ssa.Function, a []value) value {
		return in.writeTo(fr, a[0].(iface), in.sprint(fr, sliceArg(a[1]), false))
	}
	I["fmt.Fprintln"] = func(in *Interp, fr *frame, fn *ssa.Function, a []value) value {
		return in.writeTo(fr, a[0].(iface), in.sprint(fr, sliceArg(a[1]), true))
	}
	// fmt.Print* write to the process's standard output, a file of the file-system model
	// (so that a command or importer printing besides its result is observable)
	toStdout := func(in *Interp, s value) value {
		if in.run == nil {
			return tuple{int64(0), iface{}}
		}
		st := in.fs()
		f := st.files["/dev/stdout"]
		if f == nil {
			f = &fsFile{exists: true}
			st.files["/dev/stdout"] = f
		}
		e := strElems(s)
		f.data = append(f.data, e...)
		return tuple{int64(len(e)), iface{}}
	}
	I["fmt.Printf"] = func(in *Interp, fr *frame, fn *ssa.Function, a []value) value {
		s, _ := in.sprintf(fr, a[0], sliceArg(a[1]))
		return toStdout(in, s)
	}
	I["fmt.Println"] = func(in *Interp, fr *frame, fn *ssa.Function, a []value) value {
		return toStdout(in, in.sprint(fr, sliceArg(a[0]), true))
	}
	I["fmt.Print"] = func(in *Interp, fr *frame, fn *ssa.Function, a []value) value {
		return toStdout(in, in.sprint(fr, sliceArg(a[0]), false))
	}
	I["io.WriteString"] = func(in *Interp, fr *frame, fn *ssa.Function, a []value) value {
		return in.writeTo(fr, a[0].(iface), a[1])
	}
}

func sliceArg(v value) []value {
	s, _ := v.([]value)
	return s
}

// writeTo calls w.Write([]byte(s)) (or WriteString when available).
func (in *Interp) writeTo(fr *frame, w iface, s value) value {
	if w.t == nil {
		in.rtPanic("invalid memory address or nil pointer dereference (nil io.Writer)")
	}
	if m := in.findMethod(w.t, "WriteString"); m != nil {
		return in.call(fr, fr.pos, m, []value{w.v, s})
	}
	m := in.findMethod(w.t, "Write")
	if m == nil {
		panic(fmt.Sprintf("writeTo: %v has no Write", w.t))
	}
	return in.call(fr, fr.pos, m, []value{w.v, append([]value(nil), strElems(s)...)})
}

func concatStr(parts []value) value {
	var e []value
	allc := true
	for _, p := range parts {
		if _, ok := p.(string); !ok {
			allc = false
		}
	}
	if allc {
		n := 0
		for _, p := range parts {
			n += len(p.(string))
		}
		b := make([]byte, 0, n)
		for _, p := range parts {
			b = append(b, p.(string)...)
		}
		return string(b)
	}
	for _, p := range parts {
		e = append(e, strElems(p)...)
	}
	return normStr(e)
}

// nativeOf converts a concrete engine value of static type t to a Go value
// suitable for the real fmt package.
func nativeOf(t types.Type, v value) (interface{}, bool) {
	switch v := v.(type) {
	case bool:
		return v, true
	case string:
		return v, true
	case float64:
		if b := basicOf(t); b != nil && b.Kind() == types.Float32 {
			return float32(v), true
		}
		return v, true
	case int64:
		b := basicOf(t)
		if b == nil {
			return v, true
		}
		switch b.Kind() {
		case types.Int:
			return int(v), true
		case types.Int8:
			return int8(v), true
		case types.Int16:
			return int16(v), true
		case types.Int32:
			return int32(v), true
		case types.Int64:
			return v, true
		case types.Uint:
			return uint(v), true
		case types.Uint8:
			return uint8(v), true
		case types.Uint16:
			return uint16(v), true
		case types.Uint32:
			return uint32(v), true
		case types.Uint64:
			return uint64(v), true
		case types.Uintptr:
			return uintptr(v), true
		}
		return v, true
	}
	return nil, false
}

// operandString resolves Error()/String() methods and engine types to a
// string-ish value for %s/%v/%q. ok=false if the operand is not string-like.
func (in *Interp) operandString(fr *frame, arg iface) (value, bool) {
	if arg.t == nil {
		return nil, false
	}
	switch v := arg.v.(type) {
	case string, *SymStr:
		if b := basicOf(arg.t); b != nil && b.Info()&types.IsString != 0 {
			if in.findMethod(arg.t, "String") == nil && in.findMethod(arg.t, "Error") == nil {
				return v, true
			}
		}
	case Dec:
		if !v.isSym() {
			return v.C.String(), true
		}
		return &SymStr{E: []value{&Tok{D: v, Fixed: -1}}}, true
	case Tm:
		t := in.concreteTm(v)
		return t.goTime().String(), true
	}
	for _, name := range []string{"Error", "String"} {
		if m := in.findMethod(arg.t, name); m != nil && m.Signature.Params().Len() == 0 && m.Signature.Results().Len() == 1 {
			if p, ok := arg.v.(*value); ok && p == nil {
				return "<nil>", true
			}
			r := in.call(fr, fr.pos, m, []value{arg.v})
			switch r.(type) {
			case string, *SymStr:
				return r, true
			}
		}
	}
	return nil, false
}

func runeCount(in *Interp, fr *frame, s value) int {
	switch s := s.(type) {
	case string:
		return utf8.RuneCountInString(s)
	case *SymStr:
		n := 0
		// tokens count as their (unknown) length: unsupported for padding
		for _, e := range s.E {
			if _, ok := e.(*Tok); ok {
				panic(unsupported{"padding of a decimal text token (symbolic width)"})
			}
		}
		if in.allASCII(s) {
			return len(s.E)
		}
		pkg := in.Prog.ImportedPackage("unicode/utf8")
		f := pkg.Func("RuneCountInString")
		r := in.callBody(fr, f, []value{s})
		n = int(in.intArg(r, "rune count"))
		return n
	}
	return 0
}

func pad(in *Interp, fr *frame, s value, width int, left bool, zero bool) value {
	n := runeCount(in, fr, s)
	if width <= n {
		return s
	}
	p := make([]byte, width-n)
	for i := range p {
		p[i] = ' '
	}
	if left {
		return concatStr([]value{s, string(p)})
	}
	return concatStr([]value{string(p), s})
}

// sprintf returns the formatted string and, if %w occurred, the wrapped error.
func (in *Interp) sprintf(fr *frame, format value, args []value) (value, *iface) {
	if ss, ok := format.(*SymStr); ok {
		if _, conc := ss.concrete(); !conc {
			return in.sprintfSymFormat(fr, ss, args), nil
		}
	}
	f := strArg(format)
	var parts []value
	var wrapped *iface
	argi := 0
	nextArg := func() (iface, bool) {
		if argi >= len(args) {
			return iface{}, false
		}
		a := args[argi].(iface)
		argi++
		return a, true
	}
	i := 0
	for i < len(f) {
		j := i
		for j < len(f) && f[j] != '%' {
			j++
		}
		if j > i {
			parts = append(parts, f[i:j])
		}
		if j >= len(f) {
			break
		}
		// parse verb
		k := j + 1
		flags := ""
		for k < len(f) && (f[k] == '-' || f[k] == '+' || f[k] == '#' || f[k] == ' ' || f[k] == '0') {
			flags += string(f[k])
			k++
		}
		width, hasWidth := 0, false
		if k < len(f) && f[k] == '*' {
			a, ok := nextArg()
			if ok {
				width, hasWidth = int(in.intArg(a.v, "width")), true
				if width < 0 {
					width = -width
					flags += "-"
				}
			}
			k++
		} else {
			for k < len(f) && f[k] >= '0' && f[k] <= '9' {
				width = width*10 + int(f[k]-'0')
				hasWidth = true
				k++
			}
		}
		prec, hasPrec := 0, false
		if k < len(f) && f[k] == '.' {
			k++
			hasPrec = true
			if k < len(f) && f[k] == '*' {
				a, ok := nextArg()
				if ok {
					prec = int(in.intArg(a.v, "precision"))
				}
				k++
			} else {
				for k < len(f) && f[k] >= '0' && f[k] <= '9' {
					prec = prec*10 + int(f[k]-'0')
					k++
				}
			}
		}
		if k >= len(f) {
			parts = append(parts, "%!(NOVERB)")
			break
		}
		verb, vw := utf8.DecodeRuneInString(f[k:])
		i = k + vw
		if verb == '%' {
			parts = append(parts, "%")
			continue
		}
		arg, ok := nextArg()
		if !ok {
			parts = append(parts, "%!"+string(verb)+"(MISSING)")
			continue
		}
		left := false
		zero := false
		for _, c := range flags {
			if c == '-' {
				left = true
			}
			if c == '0' {
				zero = true
			}
		}
		spec := "%" + flags
		if hasWidth {
			spec += strconv.Itoa(width)
		}
		if hasPrec {
			spec += "." + strconv.Itoa(prec)
		}
		spec += string(verb)
		if verb == 'w' {
			w := arg
			wrapped = &w
			verb = 'v'
			spec = spec[:len(spec)-1] + "v"
		}
		if verb == 'T' {
			if arg.t == nil {
				parts = append(parts, "<nil>")
			} else {
				parts = append(parts, arg.t.String())
			}
			continue
		}
		var piece value
		switch verb {
		case 's', 'v', 'q':
			if arg.t == nil {
				piece = fmt.Sprintf(spec, nil)
				break
			}
			if s, ok := in.operandString(fr, arg); ok {
				if cs, isC := s.(string); isC {
					piece = fmt.Sprintf(spec, cs)
				} else {
					if verb == 'q' {
						// the real strconv.Quote, interpreted from source on the symbolic string
						pkg := in.Prog.ImportedPackage("strconv")
						if pkg == nil || pkg.Func("Quote") == nil {
							panic(unsupported{"%q on a symbolic string (strconv not loaded)"})
						}
						s = in.callBody(fr, pkg.Func("Quote"), []value{s})
					}
					if hasPrec {
						panic(unsupported{"precision on symbolic string operand"})
					}
					if hasWidth {
						s = pad(in, fr, s, width, left, zero)
					}
					piece = s
				}
				break
			}
			piece = in.formatOther(fr, spec, verb, arg)
		case 'c':
			switch r := arg.v.(type) {
			case int64:
				piece = fmt.Sprintf(spec, rune(r))
			case *Sym:
				piece = in.encodeRuneSym(r, basicOf(arg.t).Kind())
			default:
				piece = in.formatOther(fr, spec, verb, arg)
			}
		default:
			piece = in.formatOther(fr, spec, verb, arg)
		}
		parts = append(parts, piece)
	}
	if argi < len(args) {
		parts = append(parts, "%!(EXTRA)")
	}
	return concatStr(parts), wrapped
}

// sprintfSymFormat handles a format string with symbolic bytes (code under test
// passing data as a format): a byte that may be '%' forks; on that branch the
// output contains fmt's bad-verb marker instead of the input bytes (approximate:
// such results are only reported after native replay).
func (in *Interp) sprintfSymFormat(fr *frame, f *SymStr, args []value) value {
	var out []value
	for i := 0; i < len(f.E); i++ {
		e := f.E[i]
		isPct := in.truth(in.byteEq(e, int64('%')))
		if !isPct {
			out = append(out, e)
			continue
		}
		if i+1 < len(f.E) && in.truth(in.byteEq(f.E[i+1], int64('%'))) {
			out = append(out, int64('%'))
			i++
			continue
		}
		for _, b := range []byte("%!(NOVERB)") {
			out = append(out, int64(b))
		}
		i++
	}
	return normStr(out)
}

func (in *Interp) formatOther(fr *frame, spec string, verb rune, arg iface) value {
	if arg.t == nil {
		return fmt.Sprintf(spec, nil)
	}
	if n, ok := nativeOf(arg.t, arg.v); ok {
		return fmt.Sprintf(spec, n)
	}
	switch v := arg.v.(type) {
	case *Sym:
		if v.T.Sort.K == SBool {
			if in.branch(v.T) {
				return fmt.Sprintf(spec, true)
			}
			return fmt.Sprintf(spec, false)
		}
		return "<sym>"
	case *value:
		if v == nil {
			return "<nil>"
		}
		return "0xc000000000"
	case Dec, Tm:
		if s, ok := in.operandString(fr, arg); ok {
			return s
		}
	case []value:
		parts := []value{"["}
		et := types.Type(types.Typ[types.Int])
		if st, ok := arg.t.Underlying().(*types.Slice); ok {
			et = st.Elem()
		}
		for i, e := range v {
			if i > 0 {
				parts = append(parts, " ")
			}
			ei := iface{t: et, v: e}
			if ii, ok := e.(iface); ok {
				ei = ii
			}
			if s, ok := in.operandString(fr, ei); ok {
				parts = append(parts, s)
			} else {
				parts = append(parts, in.formatOther(fr, "%v", 'v', ei))
			}
		}
		parts = append(parts, "]")
		return concatStr(parts)
	case structure:
		parts := []value{"{"}
		st, _ := arg.t.Underlying().(*types.Struct)
		for i, e := range v {
			if i > 0 {
				parts = append(parts, " ")
			}
			var ft types.Type = types.Typ[types.Int]
			if st != nil {
				ft = st.Field(i).Type()
			}
			ei := iface{t: ft, v: e}
			if ii, ok := e.(iface); ok {
				ei = ii
			}
			if s, ok := in.operandString(fr, ei); ok {
				parts = append(parts, s)
			} else {
				parts = append(parts, in.formatOther(fr, "%v", 'v', ei))
			}
		}
		parts = append(parts, "}")
		return concatStr(parts)
	case *omap:
		return fmt.Sprintf("map[%d entries]", v.len())
	case iface:
		if s, ok := in.operandString(fr, v); ok {
			return s
		}
		return in.formatOther(fr, spec, verb, v)
	}
	return fmt.Sprintf("<%s>", arg.t)
}

func (in *Interp) sprint(fr *frame, args []value, ln bool) value {
	var parts []value
	prevString := false
	for i, a := range args {
		arg := a.(iface)
		isString := false
		if arg.t != nil {
			if b := basicOf(arg.t); b != nil && b.Info()&types.IsString != 0 {
				isString = true
			}
		}
		if i > 0 && (ln || (!isString && !prevString)) {
			parts = append(parts, " ")
		}
		prevString = isString
		if s, ok := in.operandString(fr, arg); ok {
			parts = append(parts, s)
		} else {
			parts = append(parts, in.formatOther(fr, "%v", 'v', arg))
		}
	}
	if ln {
		parts = append(parts, "\n")
	}
	return concatStr(parts)
}

var _ = token.NoPos
