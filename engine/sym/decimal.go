package sym

import (
	"fmt"
	"os"
	"math/big"

	"github.com/shopspring/decimal"
	"golang.org/x/tools/go/ssa"
)

// Model of github.com/shopspring/decimal (value-exact, by documented contract).
// A symbolic decimal is a Real-sorted term holding its exact value.

func pow10Rat(n int64) *big.Rat {
	p := new(big.Int).Exp(big.NewInt(10), big.NewInt(abs64(n)), nil)
	if n >= 0 {
		return new(big.Rat).SetInt(p)
	}
	return new(big.Rat).SetFrac(big.NewInt(1), p)
}

func abs64(n int64) int64 {
	if n < 0 {
		return -n
	}
	return n
}

var decRealRounding = os.Getenv("SYMGO_DECREAL") != ""

func (d Dec) isSym() bool { return d.T != nil || d.I != nil }

// decTerm returns the exact value as a Real term.
func (in *Interp) decTerm(d Dec) *Term {
	if d.T != nil {
		return d.T
	}
	if d.I != nil {
		r := in.TC.App(RealSort, "to_real", d.I)
		if d.S == 0 {
			return r
		}
		return in.TC.App(RealSort, "/", r, RealConstRat(pow10Rat(d.S)))
	}
	return RealConstRat(d.C.Rat())
}

func pow10Int(n int64) *big.Int {
	return new(big.Int).Exp(big.NewInt(10), big.NewInt(n), nil)
}

// scaled returns (coef, scale) with value = coef/10^scale for concrete and
// integer-scaled symbolic decimals; ok=false for Real-valued ones.
func (in *Interp) scaled(d Dec) (*Term, int64, bool) {
	if d.T != nil {
		return nil, 0, false
	}
	if d.I != nil {
		return d.I, d.S, true
	}
	coef := d.C.Coefficient()
	exp := int64(d.C.Exponent())
	if exp >= 0 {
		return IntConstBig(new(big.Int).Mul(coef, pow10Int(exp))), 0, true
	}
	return IntConstBig(coef), -exp, true
}

// concScaled returns the concrete (coef, scale) of a concrete decimal.
func concScaled(d Dec) (*big.Int, int64) {
	coef := d.C.Coefficient()
	exp := int64(d.C.Exponent())
	if exp >= 0 {
		return new(big.Int).Mul(coef, pow10Int(exp)), 0
	}
	return coef, -exp
}

func (in *Interp) mulConst(t *Term, k *big.Int) *Term {
	if k.Cmp(bigOne) == 0 {
		return t
	}
	return in.TC.App(IntSort, "*", t, IntConstBig(k))
}

// align brings two scaled decimals to a common scale.
func (in *Interp) align(a *Term, sa int64, b *Term, sb int64) (*Term, *Term, int64) {
	switch {
	case sa == sb:
		return a, b, sa
	case sa < sb:
		return in.mulConst(a, pow10Int(sb-sa)), b, sb
	default:
		return a, in.mulConst(b, pow10Int(sa-sb)), sa
	}
}

// truncDivConst: truncated (toward zero) division of an Int term by a positive constant.
func (in *Interp) truncDivConst(t *Term, k *big.Int) *Term {
	tc := in.TC
	if k.Cmp(bigOne) == 0 {
		return t
	}
	kc := IntConstBig(k)
	return tc.Ite(tc.App(BoolSort, ">=", t, IntConst(0)), tc.App(IntSort, "div", t, kc), tc.App(IntSort, "-", tc.App(IntSort, "div", tc.App(IntSort, "-", t), kc)))
}

// roundDivConst: division by a positive constant rounding half away from zero.
func (in *Interp) roundDivConst(t *Term, k *big.Int) *Term {
	tc := in.TC
	if k.Cmp(bigOne) == 0 {
		return t
	}
	kc := IntConstBig(k)
	// |t|*2 + k  div 2k  == floor(|t|/k + 1/2)
	two := big.NewInt(2)
	k2 := IntConstBig(new(big.Int).Mul(k, two))
	up := func(x *Term) *Term {
		return tc.App(IntSort, "div", tc.App(IntSort, "+", tc.App(IntSort, "*", x, IntConst(2)), kc), k2)
	}
	return tc.Ite(tc.App(BoolSort, ">=", t, IntConst(0)), up(t), tc.App(IntSort, "-", up(tc.App(IntSort, "-", t))))
}

func (in *Interp) floorDivConst(t *Term, k *big.Int) *Term {
	if k.Cmp(bigOne) == 0 {
		return t
	}
	return in.TC.App(IntSort, "div", t, IntConstBig(k))
}

func (in *Interp) decCmp(op string, a, b Dec) value {
	if !a.isSym() && !b.isSym() {
		c := a.C.Cmp(b.C)
		switch op {
		case "=":
			return c == 0
		case "<":
			return c < 0
		case "<=":
			return c <= 0
		case ">":
			return c > 0
		case ">=":
			return c >= 0
		}
	}
	var x, y *Term
	if ai, as, ok := in.scaled(a); ok {
		if bi, bs, ok := in.scaled(b); ok {
			x, y, _ = in.align(ai, as, bi, bs)
		}
	}
	if x == nil {
		x, y = in.decTerm(a), in.decTerm(b)
	}
	if op == "=" {
		return symOrBool(in.TC.Eq(x, y))
	}
	return symOrBool(in.TC.App(BoolSort, op, x, y))
}

func realZero() *Term { return &Term{S: "0.0", Sort: RealSort} }

// truncTerm: x truncated toward zero to p decimal places.
func (in *Interp) truncTerm(x *Term, p int64) *Term {
	tc := in.TC
	scale := RealConstRat(pow10Rat(p))
	sx := tc.App(RealSort, "*", x, scale)
	fl := tc.App(IntSort, "to_int", sx)
	ng := tc.App(IntSort, "-", tc.App(IntSort, "to_int", tc.App(RealSort, "-", sx)))
	ti := tc.Ite(tc.App(BoolSort, ">=", x, realZero()), fl, ng)
	return tc.App(RealSort, "/", tc.App(RealSort, "to_real", ti), scale)
}

// roundTerm: half away from zero at p places.
func (in *Interp) roundTerm(x *Term, p int64) *Term {
	tc := in.TC
	scale := RealConstRat(pow10Rat(p))
	half := &Term{S: "0.5", Sort: RealSort}
	sx := tc.App(RealSort, "*", x, scale)
	up := tc.App(IntSort, "to_int", tc.App(RealSort, "+", sx, half))
	dn := tc.App(IntSort, "-", tc.App(IntSort, "to_int", tc.App(RealSort, "+", tc.App(RealSort, "-", sx), half)))
	ti := tc.Ite(tc.App(BoolSort, ">=", x, realZero()), up, dn)
	return tc.App(RealSort, "/", tc.App(RealSort, "to_real", ti), scale)
}

func (in *Interp) floorTerm(x *Term, p int64) *Term {
	tc := in.TC
	scale := RealConstRat(pow10Rat(p))
	return tc.App(RealSort, "/", tc.App(RealSort, "to_real", tc.App(IntSort, "to_int", tc.App(RealSort, "*", x, scale))), scale)
}

func (in *Interp) ceilTerm(x *Term, p int64) *Term {
	tc := in.TC
	return tc.App(RealSort, "-", in.floorTerm(tc.App(RealSort, "-", x), p))
}

// roundBankTerm: half to even at p places.
func (in *Interp) roundBankTerm(x *Term, p int64) *Term {
	tc := in.TC
	scale := RealConstRat(pow10Rat(p))
	sx := tc.App(RealSort, "*", x, scale)
	fl := tc.App(IntSort, "to_int", sx)
	frac := tc.App(RealSort, "-", sx, tc.App(RealSort, "to_real", fl))
	half := &Term{S: "0.5", Sort: RealSort}
	flEven := tc.Eq(tc.App(IntSort, "mod", fl, IntConst(2)), IntConst(0))
	up := tc.App(IntSort, "+", fl, IntConst(1))
	ti := tc.Ite(tc.App(BoolSort, "<", frac, half), fl,
		tc.Ite(tc.App(BoolSort, ">", frac, half), up,
			tc.Ite(flEven, fl, up)))
	return tc.App(RealSort, "/", tc.App(RealSort, "to_real", ti), scale)
}

func decArg(v value) Dec {
	switch v := v.(type) {
	case Dec:
		return v
	case *value: // *Decimal receiver
		return (*v).(Dec)
	}
	panic(fmt.Sprintf("decArg: %T", v))
}

func (in *Interp) decDivZero(b Dec) {
	fail := func() {
		panic(targetPanic{v: iface{t: in.runtimeErrorType(), v: "decimal division by 0"}, msg: "decimal division by 0"})
	}
	if !b.isSym() {
		if b.C.IsZero() {
			fail()
		}
		return
	}
	if !in.truth(in.not(in.decCmp("=", b, Dec{}))) {
		fail()
	}
}

// decRounded applies a rounding mode at p decimal places.
// mode: "trunc", "round" (half away), "floor", "ceil", "bank", "up" (away from zero)
func (in *Interp) decRounded(x Dec, p int64, mode string) Dec {
	tc := in.TC
	if xi, xs, ok := in.scaled(x); ok && !(decRealRounding && xs-p >= 6) {
		if xs <= p {
			return x
		}
		k := pow10Int(xs - p)
		var r *Term
		switch mode {
		case "trunc":
			r = in.truncDivConst(xi, k)
		case "round":
			r = in.roundDivConst(xi, k)
		case "floor":
			r = in.floorDivConst(xi, k)
		case "ceil":
			r = tc.App(IntSort, "-", in.floorDivConst(tc.App(IntSort, "-", xi), k))
		case "up":
			r = tc.Ite(tc.App(BoolSort, ">=", xi, IntConst(0)),
				tc.App(IntSort, "-", in.floorDivConst(tc.App(IntSort, "-", xi), k)),
				in.floorDivConst(xi, k))
		case "bank":
			// half to even: fl = floor(xi/k), rem = xi - k*fl in [0,k)
			fl := in.floorDivConst(xi, k)
			rem2 := tc.App(IntSort, "*", tc.App(IntSort, "-", xi, in.mulConst(fl, k)), IntConst(2))
			kc := IntConstBig(k)
			up := tc.App(IntSort, "+", fl, IntConst(1))
			even := tc.Eq(tc.App(IntSort, "mod", fl, IntConst(2)), IntConst(0))
			r = tc.Ite(tc.App(BoolSort, "<", rem2, kc), fl, tc.Ite(tc.App(BoolSort, ">", rem2, kc), up, tc.Ite(even, fl, up)))
		}
		if p < 0 {
			return Dec{I: in.mulConst(r, pow10Int(-p)), S: 0}
		}
		return Dec{I: r, S: p}
	}
	xt := in.decTerm(x)
	switch mode {
	case "trunc":
		return Dec{T: in.truncTerm(xt, p)}
	case "round":
		return Dec{T: in.roundTerm(xt, p)}
	case "floor":
		return Dec{T: in.floorTerm(xt, p)}
	case "ceil":
		return Dec{T: in.ceilTerm(xt, p)}
	case "bank":
		return Dec{T: in.roundBankTerm(xt, p)}
	case "up":
		return Dec{T: tc.Ite(tc.App(BoolSort, ">=", xt, realZero()), in.ceilTerm(xt, p), in.floorTerm(xt, p))}
	}
	panic("decRounded: " + mode)
}

// decQuo returns x / y rounded with mode at precision prec (y != 0 checked by caller).
func (in *Interp) decQuo(x, y Dec, prec int64, mode string) Dec {
	if xi, xs, ok := in.scaled(x); ok && !y.isSym() && prec >= 0 {
		// x/y * 10^prec = xi * 10^(prec+ys) / (10^xs * yc)
		yc, ys := concScaled(y)
		num := xi
		den := new(big.Int).Set(yc)
		if den.Sign() < 0 {
			den.Neg(den)
			num = in.TC.App(IntSort, "-", num)
		}
		e := prec + ys - xs
		if e >= 0 {
			num = in.mulConst(num, pow10Int(e))
		} else {
			den.Mul(den, pow10Int(-e))
		}
		switch mode {
		case "trunc":
			return Dec{I: in.truncDivConst(num, den), S: prec}
		case "round":
			return Dec{I: in.roundDivConst(num, den), S: prec}
		}
	}
	q := in.TC.App(RealSort, "/", in.decTerm(x), in.decTerm(y))
	if mode == "trunc" {
		return Dec{T: in.truncTerm(q, prec)}
	}
	return Dec{T: in.roundTerm(q, prec)}
}

func (in *Interp) decAdd(x, y Dec, sub bool) Dec {
	if !x.isSym() && !y.isSym() {
		if sub {
			return Dec{C: x.C.Sub(y.C)}
		}
		return Dec{C: x.C.Add(y.C)}
	}
	op := "+"
	if sub {
		op = "-"
	}
	if xi, xs, ok := in.scaled(x); ok {
		if yi, ys, ok := in.scaled(y); ok {
			a, b, s := in.align(xi, xs, yi, ys)
			return Dec{I: in.TC.App(IntSort, op, a, b), S: s}
		}
	}
	return Dec{T: in.TC.App(RealSort, op, in.decTerm(x), in.decTerm(y))}
}

func (in *Interp) decMul(x, y Dec) Dec {
	if !x.isSym() && !y.isSym() {
		return Dec{C: x.C.Mul(y.C)}
	}
	if !x.isSym() {
		x, y = y, x
	}
	if xi, xs, ok := in.scaled(x); ok && !y.isSym() {
		yc, ys := concScaled(y)
		return Dec{I: in.TC.App(IntSort, "*", xi, IntConstBig(yc)), S: xs + ys}
	}
	return Dec{T: in.TC.App(RealSort, "*", in.decTerm(x), in.decTerm(y))}
}

func (in *Interp) decNeg(x Dec) Dec {
	switch {
	case !x.isSym():
		return Dec{C: x.C.Neg()}
	case x.I != nil:
		return Dec{I: in.TC.App(IntSort, "-", x.I), S: x.S}
	}
	return Dec{T: in.TC.App(RealSort, "-", x.T)}
}

func registerDecimal(in *Interp) {
	I := in.intrinsics
	const P = "github.com/shopspring/decimal."
	const M = "(github.com/shopspring/decimal.Decimal)."
	I[M+"Add"] = func(in *Interp, fr *frame, fn *ssa.Function, a []value) value {
		return in.decAdd(decArg(a[0]), decArg(a[1]), false)
	}
	I[M+"Sub"] = func(in *Interp, fr *frame, fn *ssa.Function, a []value) value {
		return in.decAdd(decArg(a[0]), decArg(a[1]), true)
	}
	I[M+"Mul"] = func(in *Interp, fr *frame, fn *ssa.Function, a []value) value {
		return in.decMul(decArg(a[0]), decArg(a[1]))
	}
	I[M+"Neg"] = func(in *Interp, fr *frame, fn *ssa.Function, a []value) value {
		return in.decNeg(decArg(a[0]))
	}
	I[M+"Abs"] = func(in *Interp, fr *frame, fn *ssa.Function, a []value) value {
		x := decArg(a[0])
		switch {
		case !x.isSym():
			return Dec{C: x.C.Abs()}
		case x.I != nil:
			return Dec{I: in.TC.Ite(in.TC.App(BoolSort, ">=", x.I, IntConst(0)), x.I, in.TC.App(IntSort, "-", x.I)), S: x.S}
		}
		return Dec{T: in.TC.Ite(in.TC.App(BoolSort, ">=", x.T, realZero()), x.T, in.TC.App(RealSort, "-", x.T))}
	}
	unaryP := func(native func(d decimal.Decimal, p int32) decimal.Decimal, mode string) intrinsicFn {
		return func(in *Interp, fr *frame, fn *ssa.Function, a []value) value {
			x := decArg(a[0])
			p := in.intArg(a[1], "decimal places")
			if !x.isSym() {
				return Dec{C: native(x.C, int32(p))}
			}
			return in.decRounded(x, p, mode)
		}
	}
	I[M+"Truncate"] = unaryP(decimal.Decimal.Truncate, "trunc")
	I[M+"Round"] = unaryP(decimal.Decimal.Round, "round")
	I[M+"RoundBank"] = unaryP(decimal.Decimal.RoundBank, "bank")
	I[M+"RoundFloor"] = unaryP(decimal.Decimal.RoundFloor, "floor")
	I[M+"RoundCeil"] = unaryP(decimal.Decimal.RoundCeil, "ceil")
	I[M+"RoundDown"] = unaryP(decimal.Decimal.RoundDown, "trunc")
	I[M+"RoundUp"] = unaryP(decimal.Decimal.RoundUp, "up")
	I[M+"Floor"] = func(in *Interp, fr *frame, fn *ssa.Function, a []value) value {
		x := decArg(a[0])
		if !x.isSym() {
			return Dec{C: x.C.Floor()}
		}
		return in.decRounded(x, 0, "floor")
	}
	I[M+"Ceil"] = func(in *Interp, fr *frame, fn *ssa.Function, a []value) value {
		x := decArg(a[0])
		if !x.isSym() {
			return Dec{C: x.C.Ceil()}
		}
		return in.decRounded(x, 0, "ceil")
	}
	I[M+"Shift"] = func(in *Interp, fr *frame, fn *ssa.Function, a []value) value {
		x := decArg(a[0])
		p := in.intArg(a[1], "shift")
		if !x.isSym() {
			return Dec{C: x.C.Shift(int32(p))}
		}
		if x.I != nil {
			if x.S-p >= 0 {
				return Dec{I: x.I, S: x.S - p}
			}
			return Dec{I: in.mulConst(x.I, pow10Int(p-x.S)), S: 0}
		}
		return Dec{T: in.TC.App(RealSort, "*", x.T, RealConstRat(pow10Rat(p)))}
	}
	divRound := func(in *Interp, x, y Dec, prec int64) Dec {
		in.decDivZero(y)
		if !x.isSym() && !y.isSym() {
			return Dec{C: x.C.DivRound(y.C, int32(prec))}
		}
		return in.decQuo(x, y, prec, "round")
	}
	I[M+"Div"] = func(in *Interp, fr *frame, fn *ssa.Function, a []value) value {
		return divRound(in, decArg(a[0]), decArg(a[1]), 16)
	}
	I[M+"DivRound"] = func(in *Interp, fr *frame, fn *ssa.Function, a []value) value {
		return divRound(in, decArg(a[0]), decArg(a[1]), in.intArg(a[2], "precision"))
	}
	I[M+"QuoRem"] = func(in *Interp, fr *frame, fn *ssa.Function, a []value) value {
		x, y := decArg(a[0]), decArg(a[1])
		prec := in.intArg(a[2], "precision")
		in.decDivZero(y)
		if !x.isSym() && !y.isSym() {
			q, r := x.C.QuoRem(y.C, int32(prec))
			return tuple{Dec{C: q}, Dec{C: r}}
		}
		q := in.decQuo(x, y, prec, "trunc")
		r := in.decAdd(x, in.decMul(q, y), true)
		return tuple{q, r}
	}
	cmp := func(op string) intrinsicFn {
		return func(in *Interp, fr *frame, fn *ssa.Function, a []value) value {
			return in.decCmp(op, decArg(a[0]), decArg(a[1]))
		}
	}
	I[M+"Equal"] = cmp("=")
	I[M+"Equals"] = cmp("=")
	I[M+"LessThan"] = cmp("<")
	I[M+"LessThanOrEqual"] = cmp("<=")
	I[M+"GreaterThan"] = cmp(">")
	I[M+"GreaterThanOrEqual"] = cmp(">=")
	zcmp := func(op string) intrinsicFn {
		return func(in *Interp, fr *frame, fn *ssa.Function, a []value) value {
			return in.decCmp(op, decArg(a[0]), Dec{})
		}
	}
	I[M+"IsZero"] = zcmp("=")
	I[M+"IsNegative"] = zcmp("<")
	I[M+"IsPositive"] = zcmp(">")
	sign3 := func(in *Interp, x, y Dec) value {
		lt := boolTerm(in.decCmp("<", x, y))
		gt := boolTerm(in.decCmp(">", x, y))
		return symInt(in.TC.Ite(lt, IntConst(-1), in.TC.Ite(gt, IntConst(1), IntConst(0))))
	}
	I[M+"Cmp"] = func(in *Interp, fr *frame, fn *ssa.Function, a []value) value {
		x, y := decArg(a[0]), decArg(a[1])
		if !x.isSym() && !y.isSym() {
			return int64(x.C.Cmp(y.C))
		}
		return sign3(in, x, y)
	}
	I[M+"Sign"] = func(in *Interp, fr *frame, fn *ssa.Function, a []value) value {
		x := decArg(a[0])
		if !x.isSym() {
			return int64(x.C.Sign())
		}
		return sign3(in, x, Dec{})
	}
	I[M+"String"] = func(in *Interp, fr *frame, fn *ssa.Function, a []value) value {
		x := decArg(a[0])
		if !x.isSym() {
			return x.C.String()
		}
		return &SymStr{E: []value{&Tok{D: x, Fixed: -1}}}
	}
	I[M+"StringFixed"] = func(in *Interp, fr *frame, fn *ssa.Function, a []value) value {
		x := decArg(a[0])
		p := in.intArg(a[1], "places")
		if !x.isSym() {
			return x.C.StringFixed(int32(p))
		}
		return in.decFixedDigits(in.decRounded(x, p, "round"), p)
	}
	I[M+"StringFixedBank"] = func(in *Interp, fr *frame, fn *ssa.Function, a []value) value {
		x := decArg(a[0])
		p := in.intArg(a[1], "places")
		if !x.isSym() {
			return x.C.StringFixedBank(int32(p))
		}
		return in.decFixedDigits(in.decRounded(x, p, "bank"), p)
	}
	concOnly := func(name string, f func(d decimal.Decimal) value) intrinsicFn {
		return func(in *Interp, fr *frame, fn *ssa.Function, a []value) value {
			x := decArg(a[0])
			if !x.isSym() {
				return f(x.C)
			}
			panic(unsupported{name + " of symbolic decimal (floating point / representation detail is outside the technique)"})
		}
	}
	I[M+"IntPart"] = concOnly("IntPart", func(d decimal.Decimal) value { return d.IntPart() })
	I[M+"Float64"] = concOnly("Float64", func(d decimal.Decimal) value { f, e := d.Float64(); return tuple{f, e} })
	I[M+"InexactFloat64"] = concOnly("InexactFloat64", func(d decimal.Decimal) value { return d.InexactFloat64() })
	I[M+"Exponent"] = concOnly("Exponent", func(d decimal.Decimal) value { return int64(d.Exponent()) })
	I[P+"NewFromInt"] = func(in *Interp, fr *frame, fn *ssa.Function, a []value) value {
		switch v := a[0].(type) {
		case int64:
			return Dec{C: decimal.NewFromInt(v)}
		case *Sym:
			t := v.T
			if t.Sort.K != SInt {
				t = in.coerce(t, IntSort, true)
			}
			return Dec{I: t, S: 0}
		}
		panic("NewFromInt")
	}
	I[P+"NewFromInt32"] = I[P+"NewFromInt"]
	I[P+"New"] = func(in *Interp, fr *frame, fn *ssa.Function, a []value) value {
		return Dec{C: decimal.New(in.intArg(a[0], "value"), int32(in.intArg(a[1], "exp")))}
	}
	I[P+"NewFromFloat"] = func(in *Interp, fr *frame, fn *ssa.Function, a []value) value {
		return Dec{C: decimal.NewFromFloat(a[0].(float64))}
	}
	I[P+"NewFromString"] = func(in *Interp, fr *frame, fn *ssa.Function, a []value) value {
		switch s := a[0].(type) {
		case string:
			d, err := decimal.NewFromString(s)
			if err != nil {
				return tuple{Dec{}, in.makeError(fr, err.Error())}
			}
			return tuple{Dec{C: d}, iface{}}
		case *SymStr:
			return in.decFromSymString(fr, s)
		}
		panic("NewFromString")
	}
	I[P+"RequireFromString"] = func(in *Interp, fr *frame, fn *ssa.Function, a []value) value {
		s, ok := a[0].(string)
		if !ok {
			panic(unsupported{"RequireFromString on symbolic text"})
		}
		d, err := decimal.NewFromString(s)
		if err != nil {
			panic(targetPanic{v: iface{t: in.runtimeErrorType(), v: err.Error()}, msg: err.Error()})
		}
		return Dec{C: d}
	}
}

// decFixedDigits renders a symbolic decimal that is already rounded to p places
// (p >= 0) as text with exactly p fraction digits: a digit vector. The number
// of integer digits is concretised by forking (bounded by 20); every digit is a
// fresh Int variable d_i in 0..9 constrained by sum d_i*10^i = |R| (the decimal
// expansion exists and is unique, so this is a definitional extension).
func (in *Interp) decFixedDigits(x Dec, p int64) value {
	tc := in.TC
	xi, xs, ok := in.scaled(x)
	if !ok || p < 0 {
		return &SymStr{E: []value{&Tok{D: x, Fixed: int(p)}}}
	}
	// bring to scale exactly p
	R := xi
	if xs < p {
		R = in.mulConst(xi, pow10Int(p-xs))
	} else if xs > p {
		panic(unsupported{"decFixedDigits: value not rounded to the requested places"})
	}
	neg := in.branch(tc.App(BoolSort, "<", R, IntConst(0)))
	abs := R
	if neg {
		abs = tc.App(IntSort, "-", R)
	}
	nd := int64(0)
	for k := int64(1); k <= 20; k++ {
		if in.branch(tc.App(BoolSort, "<", abs, IntConstBig(pow10Int(p+k)))) {
			nd = k
			break
		}
	}
	if nd == 0 {
		panic(unsupported{"symbolic decimal with more than 20 integer digits rendered as text"})
	}
	in.run.fresh++
	base := fmt.Sprintf("sf!%d", in.run.fresh)
	total := nd + p
	sum := IntConst(0)
	chars := make([]value, 0, total+2)
	digits := make([]*Term, total)
	for i := int64(0); i < total; i++ {
		d := tc.Declare(fmt.Sprintf("%s!%d", base, i), IntSort)
		digits[i] = d
		in.assume(tc.And(tc.App(BoolSort, "<=", IntConst(0), d), tc.App(BoolSort, "<=", d, IntConst(9))))
		sum = tc.App(IntSort, "+", sum, in.mulConst(d, pow10Int(i)))
	}
	in.assume(tc.Eq(sum, abs))
	if neg {
		chars = append(chars, int64('-'))
	}
	for i := total - 1; i >= 0; i-- {
		if i == p-1 {
			chars = append(chars, int64('.'))
		}
		ch := tc.App(BV(8), "(_ int2bv 8)", tc.App(IntSort, "+", IntConst(48), digits[i]))
		tc.MarkDigit(ch, digits[i])
		chars = append(chars, &Sym{T: ch})
	}
	return &SymStr{E: chars}
}

// decFromSymString parses [-+]?digits[.digits] with symbolic digit bytes.
// Any other shape (exponents etc.) with symbolic bytes is unsupported.
func (in *Interp) decFromSymString(fr *frame, s *SymStr) value {
	if cs, ok := s.concrete(); ok {
		d, err := decimal.NewFromString(cs)
		if err != nil {
			return tuple{Dec{}, in.makeError(fr, err.Error())}
		}
		return tuple{Dec{C: d}, iface{}}
	}
	tc := in.TC
	fail := func(msg string) value { return tuple{Dec{}, in.makeError(fr, "can't convert symbolic text to decimal: "+msg)} }
	e := s.E
	if len(e) == 1 {
		if tk, ok := e[0].(*Tok); ok {
			return tuple{tk.D, iface{}} // the text of a decimal parses back to that decimal
		}
	}
	neg := false
	i := 0
	if len(e) == 0 {
		return fail("empty")
	}
	if in.truth(in.byteEq(e[0], int64('-'))) {
		neg = true
		i = 1
	} else if in.truth(in.byteEq(e[0], int64('+'))) {
		i = 1
	}
	acc := IntConst(0)
	nd := 0
	scale := int64(0)
	seenDot := false
	for ; i < len(e); i++ {
		if !seenDot && in.truth(in.byteEq(e[i], int64('.'))) {
			seenDot = true
			continue
		}
		var d *Term
		switch b := e[i].(type) {
		case int64:
			if b < '0' || b > '9' {
				if b == 'e' || b == 'E' {
					panic(unsupported{"decimal exponent notation in partly symbolic text"})
				}
				return fail("bad character")
			}
			d = IntConst(b - '0')
		case *Sym:
			if kd, ok := tc.DigitOf(b.T); ok {
				d = kd
				break
			}
			isd := tc.And(tc.App(BoolSort, "bvule", BVConst('0', 8), b.T), tc.App(BoolSort, "bvule", b.T, BVConst('9', 8)))
			if !in.branch(isd) {
				isE := tc.Or(tc.Eq(b.T, BVConst('e', 8)), tc.Eq(b.T, BVConst('E', 8)))
				if in.branch(isE) {
					panic(unsupported{"decimal exponent notation in symbolic text"})
				}
				return fail("bad character")
			}
			d = tc.App(IntSort, "-", tc.App(IntSort, "bv2nat", b.T), IntConst('0'))
		default:
			panic(unsupported{"decimal token inside NewFromString"})
		}
		acc = tc.App(IntSort, "+", tc.App(IntSort, "*", acc, IntConst(10)), d)
		nd++
		if seenDot {
			scale++
		}
	}
	if nd == 0 {
		return fail("no digits")
	}
	if neg {
		acc = tc.App(IntSort, "-", acc)
	}
	return tuple{Dec{I: acc, S: scale}, iface{}}
}
