package sym

import (
	"fmt"
	"math/big"

	"github.com/shopspring/decimal"
	"golang.org/x/tools/go/ssa"
)

// Model of github.com/shopspring/decimal (value-exact, by documented contract).
// A symbolic decimal is a Real-sorted term holding its exact value.

func pow10Rat(n int64) *big.Rat {
	p := new(big.Int).Exp(big.NewInt(10), big.NewInt(abs64(n)), nil)
	if n >= 0 {
		return new(big.Rat).SetInt(p)
	}
	return new(big.Rat).SetFrac(big.NewInt(1), p)
}

func abs64(n int64) int64 {
	if n < 0 {
		return -n
	}
	return n
}

func (in *Interp) decTerm(d Dec) *Term {
	if d.T != nil {
		return d.T
	}
	return RealConstRat(d.C.Rat())
}

func (in *Interp) decCmp(op string, a, b Dec) value {
	if a.T == nil && b.T == nil {
		c := a.C.Cmp(b.C)
		switch op {
		case "=":
			return c == 0
		case "<":
			return c < 0
		case "<=":
			return c <= 0
		case ">":
			return c > 0
		case ">=":
			return c >= 0
		}
	}
	if op == "=" {
		return symOrBool(in.TC.Eq(in.decTerm(a), in.decTerm(b)))
	}
	return symOrBool(in.TC.App(BoolSort, op, in.decTerm(a), in.decTerm(b)))
}

func realZero() *Term { return &Term{S: "0.0", Sort: RealSort} }

// truncTerm: x truncated toward zero to p decimal places.
func (in *Interp) truncTerm(x *Term, p int64) *Term {
	tc := in.TC
	scale := RealConstRat(pow10Rat(p))
	sx := tc.App(RealSort, "*", x, scale)
	fl := tc.App(IntSort, "to_int", sx)
	ng := tc.App(IntSort, "-", tc.App(IntSort, "to_int", tc.App(RealSort, "-", sx)))
	ti := tc.Ite(tc.App(BoolSort, ">=", x, realZero()), fl, ng)
	return tc.App(RealSort, "/", tc.App(RealSort, "to_real", ti), scale)
}

// roundTerm: half away from zero at p places.
func (in *Interp) roundTerm(x *Term, p int64) *Term {
	tc := in.TC
	scale := RealConstRat(pow10Rat(p))
	half := &Term{S: "0.5", Sort: RealSort}
	sx := tc.App(RealSort, "*", x, scale)
	up := tc.App(IntSort, "to_int", tc.App(RealSort, "+", sx, half))
	dn := tc.App(IntSort, "-", tc.App(IntSort, "to_int", tc.App(RealSort, "+", tc.App(RealSort, "-", sx), half)))
	ti := tc.Ite(tc.App(BoolSort, ">=", x, realZero()), up, dn)
	return tc.App(RealSort, "/", tc.App(RealSort, "to_real", ti), scale)
}

func (in *Interp) floorTerm(x *Term, p int64) *Term {
	tc := in.TC
	scale := RealConstRat(pow10Rat(p))
	return tc.App(RealSort, "/", tc.App(RealSort, "to_real", tc.App(IntSort, "to_int", tc.App(RealSort, "*", x, scale))), scale)
}

func (in *Interp) ceilTerm(x *Term, p int64) *Term {
	tc := in.TC
	return tc.App(RealSort, "-", in.floorTerm(tc.App(RealSort, "-", x), p))
}

// roundBankTerm: half to even at p places.
func (in *Interp) roundBankTerm(x *Term, p int64) *Term {
	tc := in.TC
	scale := RealConstRat(pow10Rat(p))
	sx := tc.App(RealSort, "*", x, scale)
	fl := tc.App(IntSort, "to_int", sx)
	frac := tc.App(RealSort, "-", sx, tc.App(RealSort, "to_real", fl))
	half := &Term{S: "0.5", Sort: RealSort}
	flEven := tc.Eq(tc.App(IntSort, "mod", fl, IntConst(2)), IntConst(0))
	up := tc.App(IntSort, "+", fl, IntConst(1))
	ti := tc.Ite(tc.App(BoolSort, "<", frac, half), fl,
		tc.Ite(tc.App(BoolSort, ">", frac, half), up,
			tc.Ite(flEven, fl, up)))
	return tc.App(RealSort, "/", tc.App(RealSort, "to_real", ti), scale)
}

func decArg(v value) Dec {
	switch v := v.(type) {
	case Dec:
		return v
	case *value: // *Decimal receiver
		return (*v).(Dec)
	}
	panic(fmt.Sprintf("decArg: %T", v))
}

func (in *Interp) decDivZero(b Dec) {
	if b.T == nil {
		if b.C.IsZero() {
			panic(targetPanic{v: iface{t: in.runtimeErrorType(), v: "decimal division by 0"}, msg: "decimal division by 0"})
		}
		return
	}
	if !in.branch(in.TC.Not(in.TC.Eq(b.T, realZero()))) {
		panic(targetPanic{v: iface{t: in.runtimeErrorType(), v: "decimal division by 0"}, msg: "decimal division by 0"})
	}
}

func registerDecimal(in *Interp) {
	I := in.intrinsics
	const P = "github.com/shopspring/decimal."
	const M = "(github.com/shopspring/decimal.Decimal)."
	bin := func(native func(a, b decimal.Decimal) decimal.Decimal, op string) intrinsicFn {
		return func(in *Interp, fr *frame, fn *ssa.Function, a []value) value {
			x, y := decArg(a[0]), decArg(a[1])
			if x.T == nil && y.T == nil {
				return Dec{C: native(x.C, y.C)}
			}
			return Dec{T: in.TC.App(RealSort, op, in.decTerm(x), in.decTerm(y))}
		}
	}
	I[M+"Add"] = bin(decimal.Decimal.Add, "+")
	I[M+"Sub"] = bin(decimal.Decimal.Sub, "-")
	I[M+"Mul"] = bin(decimal.Decimal.Mul, "*")
	I[M+"Neg"] = func(in *Interp, fr *frame, fn *ssa.Function, a []value) value {
		x := decArg(a[0])
		if x.T == nil {
			return Dec{C: x.C.Neg()}
		}
		return Dec{T: in.TC.App(RealSort, "-", x.T)}
	}
	I[M+"Abs"] = func(in *Interp, fr *frame, fn *ssa.Function, a []value) value {
		x := decArg(a[0])
		if x.T == nil {
			return Dec{C: x.C.Abs()}
		}
		return Dec{T: in.TC.Ite(in.TC.App(BoolSort, ">=", x.T, realZero()), x.T, in.TC.App(RealSort, "-", x.T))}
	}
	unaryP := func(native func(d decimal.Decimal, p int32) decimal.Decimal, sym func(in *Interp, x *Term, p int64) *Term) intrinsicFn {
		return func(in *Interp, fr *frame, fn *ssa.Function, a []value) value {
			x := decArg(a[0])
			p := in.intArg(a[1], "decimal places")
			if x.T == nil {
				return Dec{C: native(x.C, int32(p))}
			}
			return Dec{T: sym(in, x.T, p)}
		}
	}
	I[M+"Truncate"] = unaryP(decimal.Decimal.Truncate, (*Interp).truncTerm)
	I[M+"Round"] = unaryP(decimal.Decimal.Round, (*Interp).roundTerm)
	I[M+"RoundBank"] = unaryP(decimal.Decimal.RoundBank, (*Interp).roundBankTerm)
	I[M+"RoundFloor"] = unaryP(decimal.Decimal.RoundFloor, (*Interp).floorTerm)
	I[M+"RoundCeil"] = unaryP(decimal.Decimal.RoundCeil, (*Interp).ceilTerm)
	I[M+"RoundDown"] = unaryP(decimal.Decimal.RoundDown, (*Interp).truncTerm)
	I[M+"RoundUp"] = unaryP(decimal.Decimal.RoundUp, func(in *Interp, x *Term, p int64) *Term {
		// away from zero
		return in.TC.Ite(in.TC.App(BoolSort, ">=", x, realZero()), in.ceilTerm(x, p), in.floorTerm(x, p))
	})
	I[M+"Floor"] = func(in *Interp, fr *frame, fn *ssa.Function, a []value) value {
		x := decArg(a[0])
		if x.T == nil {
			return Dec{C: x.C.Floor()}
		}
		return Dec{T: in.floorTerm(x.T, 0)}
	}
	I[M+"Ceil"] = func(in *Interp, fr *frame, fn *ssa.Function, a []value) value {
		x := decArg(a[0])
		if x.T == nil {
			return Dec{C: x.C.Ceil()}
		}
		return Dec{T: in.ceilTerm(x.T, 0)}
	}
	I[M+"Shift"] = func(in *Interp, fr *frame, fn *ssa.Function, a []value) value {
		x := decArg(a[0])
		p := in.intArg(a[1], "shift")
		if x.T == nil {
			return Dec{C: x.C.Shift(int32(p))}
		}
		return Dec{T: in.TC.App(RealSort, "*", x.T, RealConstRat(pow10Rat(p)))}
	}
	divRound := func(in *Interp, x, y Dec, prec int64) Dec {
		in.decDivZero(y)
		if x.T == nil && y.T == nil {
			return Dec{C: x.C.DivRound(y.C, int32(prec))}
		}
		q := in.TC.App(RealSort, "/", in.decTerm(x), in.decTerm(y))
		return Dec{T: in.roundTerm(q, prec)}
	}
	I[M+"Div"] = func(in *Interp, fr *frame, fn *ssa.Function, a []value) value {
		return divRound(in, decArg(a[0]), decArg(a[1]), 16)
	}
	I[M+"DivRound"] = func(in *Interp, fr *frame, fn *ssa.Function, a []value) value {
		return divRound(in, decArg(a[0]), decArg(a[1]), in.intArg(a[2], "precision"))
	}
	I[M+"QuoRem"] = func(in *Interp, fr *frame, fn *ssa.Function, a []value) value {
		x, y := decArg(a[0]), decArg(a[1])
		prec := in.intArg(a[2], "precision")
		in.decDivZero(y)
		if x.T == nil && y.T == nil {
			q, r := x.C.QuoRem(y.C, int32(prec))
			return tuple{Dec{C: q}, Dec{C: r}}
		}
		xt, yt := in.decTerm(x), in.decTerm(y)
		q := in.truncTerm(in.TC.App(RealSort, "/", xt, yt), prec)
		r := in.TC.App(RealSort, "-", xt, in.TC.App(RealSort, "*", q, yt))
		return tuple{Dec{T: q}, Dec{T: r}}
	}
	cmp := func(op string) intrinsicFn {
		return func(in *Interp, fr *frame, fn *ssa.Function, a []value) value {
			return in.decCmp(op, decArg(a[0]), decArg(a[1]))
		}
	}
	I[M+"Equal"] = cmp("=")
	I[M+"Equals"] = cmp("=")
	I[M+"LessThan"] = cmp("<")
	I[M+"LessThanOrEqual"] = cmp("<=")
	I[M+"GreaterThan"] = cmp(">")
	I[M+"GreaterThanOrEqual"] = cmp(">=")
	zcmp := func(op string) intrinsicFn {
		return func(in *Interp, fr *frame, fn *ssa.Function, a []value) value {
			return in.decCmp(op, decArg(a[0]), Dec{})
		}
	}
	I[M+"IsZero"] = zcmp("=")
	I[M+"IsNegative"] = zcmp("<")
	I[M+"IsPositive"] = zcmp(">")
	I[M+"Cmp"] = func(in *Interp, fr *frame, fn *ssa.Function, a []value) value {
		x, y := decArg(a[0]), decArg(a[1])
		if x.T == nil && y.T == nil {
			return int64(x.C.Cmp(y.C))
		}
		xt, yt := in.decTerm(x), in.decTerm(y)
		return symInt(in.TC.Ite(in.TC.App(BoolSort, "<", xt, yt), IntConst(-1), in.TC.Ite(in.TC.App(BoolSort, ">", xt, yt), IntConst(1), IntConst(0))))
	}
	I[M+"Sign"] = func(in *Interp, fr *frame, fn *ssa.Function, a []value) value {
		x := decArg(a[0])
		if x.T == nil {
			return int64(x.C.Sign())
		}
		return symInt(in.TC.Ite(in.TC.App(BoolSort, "<", x.T, realZero()), IntConst(-1), in.TC.Ite(in.TC.App(BoolSort, ">", x.T, realZero()), IntConst(1), IntConst(0))))
	}
	I[M+"String"] = func(in *Interp, fr *frame, fn *ssa.Function, a []value) value {
		x := decArg(a[0])
		if x.T == nil {
			return x.C.String()
		}
		return &SymStr{E: []value{&Tok{D: x, Fixed: -1}}}
	}
	I[M+"StringFixed"] = func(in *Interp, fr *frame, fn *ssa.Function, a []value) value {
		x := decArg(a[0])
		p := in.intArg(a[1], "places")
		if x.T == nil {
			return x.C.StringFixed(int32(p))
		}
		return &SymStr{E: []value{&Tok{D: Dec{T: in.roundTerm(x.T, p)}, Fixed: int(p)}}}
	}
	I[M+"StringFixedBank"] = func(in *Interp, fr *frame, fn *ssa.Function, a []value) value {
		x := decArg(a[0])
		p := in.intArg(a[1], "places")
		if x.T == nil {
			return x.C.StringFixedBank(int32(p))
		}
		return &SymStr{E: []value{&Tok{D: Dec{T: in.roundBankTerm(x.T, p)}, Fixed: int(p)}}}
	}
	I[M+"IntPart"] = func(in *Interp, fr *frame, fn *ssa.Function, a []value) value {
		x := decArg(a[0])
		if x.T == nil {
			return x.C.IntPart()
		}
		panic(unsupported{"IntPart of symbolic decimal"})
	}
	I[M+"Float64"] = func(in *Interp, fr *frame, fn *ssa.Function, a []value) value {
		x := decArg(a[0])
		if x.T == nil {
			f, exact := x.C.Float64()
			return tuple{f, exact}
		}
		panic(unsupported{"Float64 of symbolic decimal (floating point is outside the technique)"})
	}
	I[M+"InexactFloat64"] = func(in *Interp, fr *frame, fn *ssa.Function, a []value) value {
		x := decArg(a[0])
		if x.T == nil {
			return x.C.InexactFloat64()
		}
		panic(unsupported{"InexactFloat64 of symbolic decimal (floating point is outside the technique)"})
	}
	I[M+"Exponent"] = func(in *Interp, fr *frame, fn *ssa.Function, a []value) value {
		x := decArg(a[0])
		if x.T == nil {
			return int64(x.C.Exponent())
		}
		panic(unsupported{"Exponent of symbolic decimal"})
	}
	I[P+"NewFromInt"] = func(in *Interp, fr *frame, fn *ssa.Function, a []value) value {
		switch v := a[0].(type) {
		case int64:
			return Dec{C: decimal.NewFromInt(v)}
		case *Sym:
			t := v.T
			if t.Sort.K != SInt {
				t = in.coerce(t, IntSort, true)
			}
			return Dec{T: in.TC.App(RealSort, "to_real", t)}
		}
		panic("NewFromInt")
	}
	I[P+"NewFromInt32"] = I[P+"NewFromInt"]
	I[P+"New"] = func(in *Interp, fr *frame, fn *ssa.Function, a []value) value {
		return Dec{C: decimal.New(in.intArg(a[0], "value"), int32(in.intArg(a[1], "exp")))}
	}
	I[P+"NewFromFloat"] = func(in *Interp, fr *frame, fn *ssa.Function, a []value) value {
		return Dec{C: decimal.NewFromFloat(a[0].(float64))}
	}
	I[P+"NewFromString"] = func(in *Interp, fr *frame, fn *ssa.Function, a []value) value {
		switch s := a[0].(type) {
		case string:
			d, err := decimal.NewFromString(s)
			if err != nil {
				return tuple{Dec{}, in.makeError(fr, err.Error())}
			}
			return tuple{Dec{C: d}, iface{}}
		case *SymStr:
			return in.decFromSymString(fr, s)
		}
		panic("NewFromString")
	}
	I[P+"RequireFromString"] = func(in *Interp, fr *frame, fn *ssa.Function, a []value) value {
		s, ok := a[0].(string)
		if !ok {
			panic(unsupported{"RequireFromString on symbolic text"})
		}
		d, err := decimal.NewFromString(s)
		if err != nil {
			panic(targetPanic{v: iface{t: in.runtimeErrorType(), v: err.Error()}, msg: err.Error()})
		}
		return Dec{C: d}
	}
	I[P+"Sum"] = func(in *Interp, fr *frame, fn *ssa.Function, a []value) value {
		panic(unsupported{"decimal.Sum"})
	}
}

// decFromSymString parses [-+]?digits[.digits] with symbolic digit bytes.
// Any other shape (exponents etc.) with symbolic bytes is unsupported.
func (in *Interp) decFromSymString(fr *frame, s *SymStr) value {
	if cs, ok := s.concrete(); ok {
		d, err := decimal.NewFromString(cs)
		if err != nil {
			return tuple{Dec{}, in.makeError(fr, err.Error())}
		}
		return tuple{Dec{C: d}, iface{}}
	}
	tc := in.TC
	fail := func(msg string) value { return tuple{Dec{}, in.makeError(fr, "can't convert symbolic text to decimal: "+msg)} }
	e := s.E
	neg := false
	i := 0
	if len(e) == 0 {
		return fail("empty")
	}
	if in.truth(in.byteEq(e[0], int64('-'))) {
		neg = true
		i = 1
	} else if in.truth(in.byteEq(e[0], int64('+'))) {
		i = 1
	}
	acc := IntConst(0)
	nd := 0
	scale := int64(0)
	seenDot := false
	for ; i < len(e); i++ {
		if !seenDot && in.truth(in.byteEq(e[i], int64('.'))) {
			seenDot = true
			continue
		}
		var d *Term
		switch b := e[i].(type) {
		case int64:
			if b < '0' || b > '9' {
				if b == 'e' || b == 'E' {
					panic(unsupported{"decimal exponent notation in partly symbolic text"})
				}
				return fail("bad character")
			}
			d = IntConst(b - '0')
		case *Sym:
			isd := tc.And(tc.App(BoolSort, "bvule", BVConst('0', 8), b.T), tc.App(BoolSort, "bvule", b.T, BVConst('9', 8)))
			if !in.branch(isd) {
				isE := tc.Or(tc.Eq(b.T, BVConst('e', 8)), tc.Eq(b.T, BVConst('E', 8)))
				if in.branch(isE) {
					panic(unsupported{"decimal exponent notation in symbolic text"})
				}
				return fail("bad character")
			}
			d = tc.App(IntSort, "-", tc.App(IntSort, "bv2nat", b.T), IntConst('0'))
		default:
			panic(unsupported{"decimal token inside NewFromString"})
		}
		acc = tc.App(IntSort, "+", tc.App(IntSort, "*", acc, IntConst(10)), d)
		nd++
		if seenDot {
			scale++
		}
	}
	if nd == 0 {
		return fail("no digits")
	}
	r := tc.App(RealSort, "/", tc.App(RealSort, "to_real", acc), RealConstRat(pow10Rat(scale)))
	if neg {
		r = tc.App(RealSort, "-", r)
	}
	return tuple{Dec{T: r}, iface{}}
}
