package sym

import (
	"fmt"
	"strings"
	"go/token"
	"go/types"
	"math/big"
	"unicode/utf8"
)

type bigIntT = big.Int

var bigOne = big.NewInt(1)

// concrete returns the Go string if every byte is concrete.
func (s *SymStr) concrete() (string, bool) {
	b := make([]byte, len(s.E))
	for i, e := range s.E {
		v, ok := e.(int64)
		if !ok {
			return "", false
		}
		b[i] = byte(v)
	}
	return string(b), true
}

// normStr turns a byte-element list into string or *SymStr.
func normStr(e []value) value {
	allc := true
	for _, x := range e {
		if _, ok := x.(int64); !ok {
			allc = false
			break
		}
	}
	if allc {
		b := make([]byte, len(e))
		for i, x := range e {
			b[i] = byte(x.(int64))
		}
		return string(b)
	}
	return &SymStr{E: e}
}

func strElems(v value) []value {
	switch s := v.(type) {
	case string:
		r := make([]value, len(s))
		for i := 0; i < len(s); i++ {
			r[i] = int64(s[i])
		}
		return r
	case *SymStr:
		return s.E
	}
	panic(fmt.Sprintf("strElems: %T", v))
}

func strLen(v value) int {
	switch s := v.(type) {
	case string:
		return len(s)
	case *SymStr:
		return len(s.E)
	}
	panic(fmt.Sprintf("strLen: %T", v))
}

func (in *Interp) byteEq(a, b value) value {
	ta, aTok := a.(*Tok)
	tb, bTok := b.(*Tok)
	if aTok || bTok {
		if aTok && bTok {
			return in.tokEq(ta, tb)
		}
		// a decimal text token consists of characters from "-.0123456789" only, so it differs from
		// every other byte; comparing it with one of those characters is not decidable here
		other := b
		if bTok {
			other = a
		}
		if c, ok := other.(int64); ok && !strings.ContainsRune("-.0123456789", rune(c)) {
			return false
		}
		panic(unsupported{"comparison of decimal text token with a digit/sign byte"})
	}
	ai, ac := a.(int64)
	bi, bc := b.(int64)
	if ac && bc {
		return ai == bi
	}
	// known digit characters: compare digit values (keeps the query in LIA)
	if as, ok := a.(*Sym); ok {
		if da, ok := in.TC.DigitOf(as.T); ok {
			switch bv := b.(type) {
			case int64:
				if bv < '0' || bv > '9' {
					return false
				}
				return symOrBool(in.TC.Eq(da, IntConst(bv-'0')))
			case *Sym:
				if db, ok := in.TC.DigitOf(bv.T); ok {
					return symOrBool(in.TC.Eq(da, db))
				}
			}
		}
	}
	if bs, ok := b.(*Sym); ok && ac {
		if _, ok := in.TC.DigitOf(bs.T); ok {
			return in.byteEq(b, a)
		}
	}
	return symOrBool(in.TC.Eq(in.toTerm(a, BV(8)), in.toTerm(b, BV(8))))
}

func (in *Interp) strEq(x, y value) value {
	xs, xc := x.(string)
	ys, yc := y.(string)
	if xc && yc {
		return xs == ys
	}
	xe, ye := strElems(x), strElems(y)
	if len(xe) != len(ye) {
		return false
	}
	var acc value = true
	for i := range xe {
		acc = in.andV(acc, in.byteEq(xe[i], ye[i]))
		if b, ok := acc.(bool); ok && !b {
			return false
		}
	}
	return acc
}

func (in *Interp) strBinop(op token.Token, x, y value) value {
	xs, xc := x.(string)
	ys, yc := y.(string)
	if xc && yc {
		switch op {
		case token.ADD:
			return xs + ys
		case token.LSS:
			return xs < ys
		case token.LEQ:
			return xs <= ys
		case token.GTR:
			return xs > ys
		case token.GEQ:
			return xs >= ys
		}
	}
	switch op {
	case token.ADD:
		xe, ye := strElems(x), strElems(y)
		r := make([]value, 0, len(xe)+len(ye))
		r = append(r, xe...)
		r = append(r, ye...)
		return normStr(r)
	case token.LSS, token.LEQ, token.GTR, token.GEQ:
		lt := in.strLess(x, y)
		switch op {
		case token.LSS:
			return lt
		case token.GEQ:
			return in.not(lt)
		case token.GTR:
			return in.strLess(y, x)
		case token.LEQ:
			return in.not(in.strLess(y, x))
		}
	}
	panic(unsupported{fmt.Sprintf("string binop %s", op)})
}

// strLess builds the lexicographic x < y.
func (in *Interp) strLess(x, y value) value {
	xe, ye := strElems(x), strElems(y)
	n := len(xe)
	if len(ye) < n {
		n = len(ye)
	}
	// from the end: res = (len(x) < len(y)) for the common-prefix-equal case
	var res value = len(xe) < len(ye)
	for i := n - 1; i >= 0; i-- {
		a, b := in.toTerm(xe[i], BV(8)), in.toTerm(ye[i], BV(8))
		lt := symOrBool(in.TC.App(BoolSort, "bvult", a, b))
		if ai, ok := xe[i].(int64); ok {
			if bi, ok := ye[i].(int64); ok {
				lt = ai < bi
			}
		}
		eq := in.byteEq(xe[i], ye[i])
		res = in.orV(lt, in.andV(eq, res))
	}
	return res
}

func decodeRune(s string) (rune, int) {
	return utf8.DecodeRuneInString(s)
}

// decodeRuneSym decodes the first rune of a (partly) symbolic string by
// interpreting the real unicode/utf8.DecodeRuneInString from its SSA.
func (in *Interp) decodeRuneSym(fr *frame, s value) (value, int64) {
	if cs, ok := s.(string); ok {
		r, w := decodeRune(cs)
		return int64(r), int64(w)
	}
	pkg := in.Prog.ImportedPackage("unicode/utf8")
	if pkg == nil {
		panic(unsupported{"unicode/utf8 not loaded"})
	}
	f := pkg.Func("DecodeRuneInString")
	res := in.callSSA(fr, token.NoPos, f, []value{s}, nil).(tuple)
	w := in.concreteInt(res[1], "rune width")
	return res[0], w
}

// encodeRuneSym implements string(r) for a symbolic rune by forking on the
// encoding length.
func (in *Interp) encodeRuneSym(r *Sym, k types.BasicKind) value {
	tc := in.TC
	if r.T.Sort.K != SBV {
		v := in.concretize(r, "rune to string").(int64)
		return string(rune(v))
	}
	if d, ok := tc.DigitOf(r.T); ok {
		// a known ASCII digit character: one byte, '0'+d
		ch := tc.App(BV(8), "(_ int2bv 8)", tc.App(IntSort, "+", IntConst(48), d))
		tc.MarkDigit(ch, d)
		return &SymStr{E: []value{&Sym{T: ch}}}
	}
	w, signed := intInfo(k)
	t := in.resize(r.T, 32, signed)
	if w > 32 {
		// out of range values become RuneError
		inr := tc.App(BoolSort, "bvult", r.T, BVConst(0x110000, w))
		if !in.branch(inr) {
			return string(utf8.RuneError)
		}
	}
	c := func(v int64) *Term { return BVConst(v, 32) }
	ult := func(a, b *Term) *Term { return tc.App(BoolSort, "bvult", a, b) }
	ext := func(x *Term) *Term { return tc.App(BV(8), "(_ extract 7 0)", x) }
	shr := func(x *Term, n int64) *Term { return tc.App(BV(32), "bvlshr", x, c(n)) }
	and := func(x *Term, m int64) *Term { return tc.App(BV(32), "bvand", x, c(m)) }
	or := func(x *Term, m int64) *Term { return tc.App(BV(32), "bvor", x, c(m)) }
	switch {
	case in.branch(ult(t, c(0x80))):
		return &SymStr{E: []value{&Sym{T: ext(t)}}}
	case in.branch(ult(t, c(0x800))):
		return &SymStr{E: []value{
			&Sym{T: ext(or(shr(t, 6), 0xC0))},
			&Sym{T: ext(or(and(t, 0x3F), 0x80))},
		}}
	case in.branch(tc.Or(ult(c(0x10FFFF), t), tc.And(tc.Not(ult(t, c(0xD800))), ult(t, c(0xE000))))):
		return string(utf8.RuneError)
	case in.branch(ult(t, c(0x10000))):
		return &SymStr{E: []value{
			&Sym{T: ext(or(shr(t, 12), 0xE0))},
			&Sym{T: ext(or(and(shr(t, 6), 0x3F), 0x80))},
			&Sym{T: ext(or(and(t, 0x3F), 0x80))},
		}}
	default:
		return &SymStr{E: []value{
			&Sym{T: ext(or(shr(t, 18), 0xF0))},
			&Sym{T: ext(or(and(shr(t, 12), 0x3F), 0x80))},
			&Sym{T: ext(or(and(shr(t, 6), 0x3F), 0x80))},
			&Sym{T: ext(or(and(t, 0x3F), 0x80))},
		}}
	}
}

func (in *Interp) tokEq(a, b *Tok) value {
	if a.Fixed != b.Fixed {
		panic(unsupported{"comparison of differently formatted decimal tokens"})
	}
	return in.decCmp("=", a.D, b.D)
}
