package sym

import (
	"fmt"
	"go/types"
	"path/filepath"
	"strings"

	"golang.org/x/tools/go/ssa"
)

// File-system model for C18 (in-place rewrites). Files are byte sequences
// (possibly symbolic) keyed by cleaned path. Every operation of the model is a
// numbered fault point: the armed operation fails (a write first accepts k
// bytes), or the process "crashes" there (all later operations are no-ops).
// Rename is atomic (POSIX), which is an assumption of the claim.

type fsFile struct {
	data    []value
	mode    int64
	exists  bool
	symlink bool // the path is a symbolic link to the data (Lstat reports ModeSymlink)
}

type fsHandle struct {
	path   string
	closed bool
	rdPos  int
}

type fsState struct {
	files   map[string]*fsFile
	ops     int
	armed   int // index of the failing operation, -1 none
	k       value
	crash   bool
	crashed bool
	tmpN    int
	log     []string
	writesTo map[string]int
	std      map[string]*value
}

func (in *Interp) fs() *fsState {
	if in.run.fsys == nil {
		in.run.fsys = &fsState{files: map[string]*fsFile{}, armed: -1, writesTo: map[string]int{}}
	}
	return in.run.fsys
}

// fault reports whether the current operation is the armed one.
func (in *Interp) fsFault(op string) bool {
	st := in.fs()
	if st.crashed {
		return true
	}
	i := st.ops
	st.ops++
	st.log = append(st.log, op)
	if i == st.armed {
		if st.crash {
			st.crashed = true
			panic(targetPanic{msg: "zzverif: simulated crash at " + op, v: iface{t: in.runtimeErrorType(), v: "zzverif: simulated crash at " + op}})
		}
		return true
	}
	return false
}

func (in *Interp) pathErr(fr *frame, op, path, msg string) iface {
	return in.makeError(fr, op+" "+path+": "+msg)
}

func fileValue(h *fsHandle) value {
	var cell value = &native{kind: "file", obj: h}
	return &cell
}

func (in *Interp) handleOf(v value) *fsHandle {
	p := in.derefPtr(v, "*os.File")
	n, ok := (*p).(*native)
	if !ok || n.kind != "file" {
		panic(unsupported{"os.File that does not come from the file-system model"})
	}
	return n.obj.(*fsHandle)
}

func registerFS(in *Interp) {
	I := in.intrinsics
	clean := func(p string) string { return filepath.Clean(p) }
	nilFile := (*value)(nil)
	I["os.ReadFile"] = func(in *Interp, fr *frame, fn *ssa.Function, a []value) value {
		p := clean(strArg(a[0]))
		if in.fsFault("ReadFile " + p) {
			return tuple{[]value(nil), in.pathErr(fr, "open", p, "input/output error")}
		}
		f := in.fs().files[p]
		if f == nil || !f.exists {
			return tuple{[]value(nil), in.pathErr(fr, "open", p, "no such file or directory")}
		}
		return tuple{append([]value{}, f.data...), iface{}}
	}
	createTemp := func(in *Interp, fr *frame, fn *ssa.Function, a []value) value {
		dir, pat := strArg(a[0]), strArg(a[1])
		if dir == "" {
			dir = "/tmp"
		}
		if in.fsFault("TempFile " + dir) {
			return tuple{nilFile, in.pathErr(fr, "open", dir, "permission denied")}
		}
		// a file name is at most 255 bytes: the pattern plus the random decimal suffix of
		// os.CreateTemp (1-10 digits; fewer than 3 with probability < 1e-6) must fit
		if len(strings.ReplaceAll(pat, "*", ""))+3 > 255 {
			return tuple{nilFile, in.pathErr(fr, "open", filepath.Join(dir, pat), "file name too long")}
		}
		st := in.fs()
		st.tmpN++
		p := clean(filepath.Join(dir, fmt.Sprintf("%s%d.tmp", strings.ReplaceAll(pat, "*", ""), st.tmpN)))
		st.files[p] = &fsFile{exists: true, mode: 0o600}
		return tuple{fileValue(&fsHandle{path: p}), iface{}}
	}
	I["io/ioutil.TempFile"] = createTemp
	I["os.CreateTemp"] = createTemp
	openTrunc := func(in *Interp, fr *frame, p string, mode int64) value {
		if in.fsFault("OpenFile " + p) {
			return tuple{nilFile, in.pathErr(fr, "open", p, "permission denied")}
		}
		st := in.fs()
		f := st.files[p]
		if f == nil {
			f = &fsFile{mode: mode}
			st.files[p] = f
		}
		f.exists = true
		f.data = nil // O_TRUNC
		st.writesTo[p]++
		return tuple{fileValue(&fsHandle{path: p}), iface{}}
	}
	I["os.Create"] = func(in *Interp, fr *frame, fn *ssa.Function, a []value) value {
		return openTrunc(in, fr, clean(strArg(a[0])), 0o644)
	}
	I["os.OpenFile"] = func(in *Interp, fr *frame, fn *ssa.Function, a []value) value {
		flag := in.intArg(a[1], "flag")
		p := clean(strArg(a[0]))
		if flag&0x200 != 0 || flag&0x40 != 0 { // O_TRUNC or O_CREATE
			if flag&0x200 == 0 {
				// create without truncation: keep data
				if in.fsFault("OpenFile " + p) {
					return tuple{nilFile, in.pathErr(fr, "open", p, "permission denied")}
				}
				st := in.fs()
				if st.files[p] == nil {
					st.files[p] = &fsFile{mode: in.intArg(a[2], "perm")}
				}
				st.files[p].exists = true
				return tuple{fileValue(&fsHandle{path: p}), iface{}}
			}
			return openTrunc(in, fr, p, in.intArg(a[2], "perm"))
		}
		if in.fsFault("OpenFile " + p) {
			return tuple{nilFile, in.pathErr(fr, "open", p, "permission denied")}
		}
		f := in.fs().files[p]
		if f == nil || !f.exists {
			return tuple{nilFile, in.pathErr(fr, "open", p, "no such file or directory")}
		}
		return tuple{fileValue(&fsHandle{path: p}), iface{}}
	}
	I["os.Open"] = func(in *Interp, fr *frame, fn *ssa.Function, a []value) value {
		p := clean(strArg(a[0]))
		if in.fsFault("Open " + p) {
			return tuple{nilFile, in.pathErr(fr, "open", p, "permission denied")}
		}
		f := in.fs().files[p]
		if f == nil || !f.exists {
			return tuple{nilFile, in.pathErr(fr, "open", p, "no such file or directory")}
		}
		return tuple{fileValue(&fsHandle{path: p}), iface{}}
	}
	write := func(in *Interp, fr *frame, h *fsHandle, data []value) value {
		st := in.fs()
		f := st.files[h.path]
		if h.closed || f == nil {
			return tuple{int64(0), in.pathErr(fr, "write", h.path, "file already closed")}
		}
		st.writesTo[h.path]++
		// the armed write accepts k bytes (k concretised by forking), then fails / crashes
		if st.crashed {
			return tuple{int64(0), in.pathErr(fr, "write", h.path, "crashed")}
		}
		i := st.ops
		st.ops++
		st.log = append(st.log, "Write "+h.path)
		if i == st.armed {
			k := in.intArg(st.k, "bytes accepted by the failing write")
			if k > int64(len(data)) {
				k = int64(len(data))
			}
			if k < 0 {
				k = 0
			}
			f.data = append(f.data, data[:k]...)
			if st.crash {
				st.crashed = true
				panic(targetPanic{msg: "zzverif: simulated crash at Write", v: iface{t: in.runtimeErrorType(), v: "zzverif: simulated crash at Write"}})
			}
			return tuple{k, in.pathErr(fr, "write", h.path, "file too large")}
		}
		f.data = append(f.data, data...)
		return tuple{int64(len(data)), iface{}}
	}
	I["(*os.File).Write"] = func(in *Interp, fr *frame, fn *ssa.Function, a []value) value {
		d, _ := a[1].([]value)
		return write(in, fr, in.handleOf(a[0]), append([]value{}, d...))
	}
	I["(*os.File).WriteString"] = func(in *Interp, fr *frame, fn *ssa.Function, a []value) value {
		return write(in, fr, in.handleOf(a[0]), append([]value{}, strElems(a[1])...))
	}
	I["(*os.File).ReadFrom"] = func(in *Interp, fr *frame, fn *ssa.Function, a []value) value {
		// io.Copy(f, r) may arrive here when r has no WriteTo: read everything, then one write
		r := a[1].(iface)
		m := in.findMethod(r.t, "Read")
		if m == nil {
			panic(unsupported{"ReadFrom: reader without Read"})
		}
		var all []value
		for {
			buf := make([]value, 512)
			for i := range buf {
				buf[i] = int64(0)
			}
			res := in.call(fr, fr.pos, m, []value{r.v, buf}).(tuple)
			n := in.intArg(res[0], "n")
			all = append(all, buf[:n]...)
			if e := res[1].(iface); e.t != nil || n == 0 {
				break
			}
		}
		res := write(in, fr, in.handleOf(a[0]), all).(tuple)
		return tuple{res[0], res[1]}
	}
	I["(*os.File).Read"] = func(in *Interp, fr *frame, fn *ssa.Function, a []value) value {
		h := in.handleOf(a[0])
		f := in.fs().files[h.path]
		buf, _ := a[1].([]value)
		if f == nil || h.rdPos >= len(f.data) {
			pkg := in.Prog.ImportedPackage("io")
			eof := *in.global(pkg.Var("EOF"))
			return tuple{int64(0), eof}
		}
		n := copy(buf, f.data[h.rdPos:])
		h.rdPos += n
		return tuple{int64(n), iface{}}
	}
	I["(*os.File).Sync"] = func(in *Interp, fr *frame, fn *ssa.Function, a []value) value {
		h := in.handleOf(a[0])
		if in.fsFault("Sync " + h.path) {
			return in.pathErr(fr, "sync", h.path, "input/output error")
		}
		return iface{}
	}
	I["(*os.File).Close"] = func(in *Interp, fr *frame, fn *ssa.Function, a []value) value {
		h := in.handleOf(a[0])
		if h.closed {
			return in.pathErr(fr, "close", h.path, "file already closed")
		}
		if in.fsFault("Close " + h.path) {
			h.closed = true
			return in.pathErr(fr, "close", h.path, "input/output error")
		}
		h.closed = true
		return iface{}
	}
	I["(*os.File).Name"] = func(in *Interp, fr *frame, fn *ssa.Function, a []value) value {
		return in.handleOf(a[0]).path
	}
	I["(*os.File).Chmod"] = func(in *Interp, fr *frame, fn *ssa.Function, a []value) value { return iface{} }
	stat := func(in *Interp, fr *frame, fn *ssa.Function, a []value) value {
		p := clean(strArg(a[0]))
		if in.fsFault("Stat " + p) {
			return tuple{iface{}, in.pathErr(fr, "stat", p, "input/output error")}
		}
		f := in.fs().files[p]
		if f == nil || !f.exists {
			return tuple{iface{}, in.notExistErr(fr, p)}
		}
		var cell value = &native{kind: "fileinfo", obj: f.mode}
		return tuple{iface{t: in.fileInfoType(), v: &cell}, iface{}}
	}
	I["os.Stat"] = stat
	I["os.Lstat"] = func(in *Interp, fr *frame, fn *ssa.Function, a []value) value {
		r := stat(in, fr, fn, a).(tuple)
		if e := r[1].(iface); e.t == nil {
			if f := in.fs().files[clean(strArg(a[0]))]; f != nil && f.symlink {
				var cell value = &native{kind: "fileinfo", obj: f.mode | (1 << 27)}
				return tuple{iface{t: in.fileInfoType(), v: &cell}, iface{}}
			}
		}
		return r
	}
	I["os.IsNotExist"] = func(in *Interp, fr *frame, fn *ssa.Function, a []value) value {
		e := a[0].(iface)
		if e.t == nil {
			return false
		}
		if p, ok := e.v.(*value); ok && p != nil {
			if st, ok := (*p).(structure); ok && len(st) > 0 {
				if s, ok := st[0].(string); ok {
					return strings.HasSuffix(s, "no such file or directory")
				}
			}
		}
		return false
	}
	I["os.Chmod"] = func(in *Interp, fr *frame, fn *ssa.Function, a []value) value {
		p := clean(strArg(a[0]))
		if in.fsFault("Chmod " + p) {
			return in.pathErr(fr, "chmod", p, "operation not permitted")
		}
		if f := in.fs().files[p]; f != nil {
			f.mode = in.intArg(a[1], "mode")
		}
		return iface{}
	}
	I["os.Rename"] = func(in *Interp, fr *frame, fn *ssa.Function, a []value) value {
		from, to := clean(strArg(a[0])), clean(strArg(a[1]))
		if in.fsFault("Rename " + from + " -> " + to) {
			return in.pathErr(fr, "rename", from, "permission denied")
		}
		st := in.fs()
		f := st.files[from]
		if f == nil || !f.exists {
			return in.pathErr(fr, "rename", from, "no such file or directory")
		}
		st.files[to] = f
		delete(st.files, from)
		return iface{}
	}
	I["github.com/natefinch/atomic.ReplaceFile"] = I["os.Rename"]
	I["os.Remove"] = func(in *Interp, fr *frame, fn *ssa.Function, a []value) value {
		p := clean(strArg(a[0]))
		if in.fsFault("Remove " + p) {
			return in.pathErr(fr, "remove", p, "permission denied")
		}
		delete(in.fs().files, p)
		return iface{}
	}
	I["os.WriteFile"] = func(in *Interp, fr *frame, fn *ssa.Function, a []value) value {
		p := clean(strArg(a[0]))
		r := openTrunc(in, fr, p, in.intArg(a[2], "perm")).(tuple)
		if e := r[1].(iface); e.t != nil {
			return e
		}
		h := in.handleOf(r[0])
		d, _ := a[1].([]value)
		w := write(in, fr, h, append([]value{}, d...)).(tuple)
		if e := w[1].(iface); e.t != nil {
			return e
		}
		return iface{}
	}
	I["(*os.fileStat).Mode"] = func(in *Interp, fr *frame, fn *ssa.Function, a []value) value {
		p := in.derefPtr(a[0], "fileStat")
		return (*p).(*native).obj.(int64)
	}

	// ---- harness side (zzverif) ----
	I[zz+"FSPath"] = func(in *Interp, fr *frame, fn *ssa.Function, a []value) value {
		return "/work/" + strArg(a[0])
	}
	I[zz+"FSWrite"] = func(in *Interp, fr *frame, fn *ssa.Function, a []value) value {
		p := clean("/work/" + strArg(a[0]))
		in.fs().files[p] = &fsFile{data: append([]value{}, strElems(a[1])...), exists: true, mode: 0o644}
		return nil
	}
	I[zz+"FSSymlink"] = func(in *Interp, fr *frame, fn *ssa.Function, a []value) value {
		if f := in.fs().files[clean("/work/"+strArg(a[0]))]; f != nil {
			f.symlink = true
		}
		return nil
	}
	I[zz+"FSRead"] = func(in *Interp, fr *frame, fn *ssa.Function, a []value) value {
		p := clean("/work/" + strArg(a[0]))
		f := in.fs().files[p]
		if f == nil || !f.exists {
			return tuple{"", false}
		}
		return tuple{normStr(append([]value{}, f.data...)), true}
	}
	I[zz+"CaptureStdout"] = func(in *Interp, fr *frame, fn *ssa.Function, a []value) value {
		st := in.fs()
		before := 0
		if f := st.files["/dev/stdout"]; f != nil {
			before = len(f.data)
		}
		in.call(fr, fr.pos, a[0], nil)
		f := st.files["/dev/stdout"]
		if f == nil {
			return ""
		}
		return normStr(append([]value{}, f.data[before:]...))
	}
	I[zz+"FSArm"] = func(in *Interp, fr *frame, fn *ssa.Function, a []value) value {
		st := in.fs()
		st.armed = int(in.intArg(a[0], "op"))
		st.k = a[1]
		st.crash = a[2].(bool)
		st.ops = 0
		st.crashed = false
		return nil
	}
	I[zz+"FSOps"] = func(in *Interp, fr *frame, fn *ssa.Function, a []value) value {
		return int64(in.fs().ops)
	}
	I[zz+"FSWrites"] = func(in *Interp, fr *frame, fn *ssa.Function, a []value) value {
		return int64(in.fs().writesTo[clean("/work/"+strArg(a[0]))])
	}
	I[zz+"FSOthers"] = func(in *Interp, fr *frame, fn *ssa.Function, a []value) value {
		// number of files in the work directory
		n := 0
		for p, f := range in.fs().files {
			if f.exists && strings.HasPrefix(p, "/work/") {
				n++
			}
		}
		return int64(n)
	}
}

func (in *Interp) notExistErr(fr *frame, p string) iface {
	return in.makeError(fr, "stat "+p+": no such file or directory")
}

// fileInfoType returns a type implementing os.FileInfo whose Mode() the engine answers.
func (in *Interp) fileInfoType() types.Type {
	pkg := in.Prog.ImportedPackage("os")
	if pkg == nil {
		panic(unsupported{"os not loaded"})
	}
	t := pkg.Type("fileStat")
	if t == nil {
		panic(unsupported{"os.fileStat not found"})
	}
	return types.NewPointer(t.Object().Type())
}
