package sym

import (
	"fmt"
	"go/token"
	"go/types"
	"runtime"
	"strings"

	"golang.org/x/tools/go/ssa"
)

// ---- control-flow signals (Go panics inside the engine) ----

// targetPanic is a panic of the interpreted program.
type targetPanic struct {
	v   value  // the panic value (an iface)
	msg string // printable message
	rt  bool   // runtime error (nil deref, index, ...)
	where string
}

// pathEnd ends the current path.
type pathEnd struct {
	reason string // "infeasible", "assume", "stop", "budget", ...
}

// unsupported marks a construct the engine cannot execute: inconclusive.
type unsupported struct{ what string }

type undoEntry struct {
	addr *value
	old  value
	m    *omap
	mk   string
	midx int
	mold omapEntry
	mnew bool
	mn   int
}

type intrinsicFn func(in *Interp, fr *frame, fn *ssa.Function, args []value) value

// Interp is one symbolic interpreter (one worker).
type Interp struct {
	noFresh bool // modelInputs: skip the fresh-process confirmation of a sat answer
	Prog    *ssa.Program
	globals map[*ssa.Global]*value
	inited  map[*ssa.Package]bool
	initing int
	initTop *ssa.Function

	TC     *TermCtx
	Solver *Solver

	intrinsics map[string]intrinsicFn
	overrides  map[string]value

	undo   []undoEntry
	undoOn bool

	Params map[string]int

	run *runState
	exp *Explorer
	keyCache map[*ssa.Function]string
	knutFn   map[*ssa.Function]bool
	curRange *ssa.Range
	MapSites map[*ssa.Range]int
	curFrame *frame

	Steps    int64
	MaxSteps int64
	Trace    bool

	FuncsHit map[string]bool // knut functions executed
	StubsHit map[string]bool

	errType types.Type
}

type deferred struct {
	fn    value
	args  []value
	instr *ssa.Defer
	tail  *deferred
}

type frame struct {
	in               *Interp
	caller           *frame
	fn               *ssa.Function
	block, prevBlock *ssa.BasicBlock
	env              map[ssa.Value]value
	locals           []value
	defers           *deferred
	result           value
	panicking        bool
	panic            interface{}
	phitemps         []value
	pos              token.Pos
}

func NewInterp(prog *ssa.Program) *Interp {
	in := &Interp{
		Prog:       prog,
		globals:    map[*ssa.Global]*value{},
		inited:     map[*ssa.Package]bool{},
		intrinsics: map[string]intrinsicFn{},
		overrides:  map[string]value{},
		Params:     map[string]int{},
		MaxSteps:   20_000_000,
		FuncsHit:   map[string]bool{},
		StubsHit:   map[string]bool{},
	}
	registerIntrinsics(in)
	return in
}

func (in *Interp) logStore(addr *value) {
	if in.undoOn {
		in.undo = append(in.undo, undoEntry{addr: addr, old: *addr})
	}
}

func (in *Interp) rollback() {
	for i := len(in.undo) - 1; i >= 0; i-- {
		u := &in.undo[i]
		if u.addr != nil {
			*u.addr = u.old
		} else if u.m != nil {
			if u.mnew {
				delete(u.m.idx, u.mk)
				u.m.entries = u.m.entries[:u.midx]
			} else {
				u.m.entries[u.midx] = u.mold
				if !u.mold.deleted {
					u.m.idx[u.mk] = u.midx
				}
			}
			u.m.n = u.mn
		}
	}
	in.undo = in.undo[:0]
}

func (in *Interp) mapInsert(m *omap, k, v value) {
	ks := keyString(k)
	if i, ok := m.idx[ks]; ok {
		if in.undoOn {
			in.undo = append(in.undo, undoEntry{m: m, mk: ks, midx: i, mold: m.entries[i], mn: m.n})
		}
		m.entries[i].v = v
		return
	}
	if in.undoOn {
		in.undo = append(in.undo, undoEntry{m: m, mk: ks, midx: len(m.entries), mnew: true, mn: m.n})
	}
	m.idx[ks] = len(m.entries)
	m.entries = append(m.entries, omapEntry{k: k, v: v})
	m.n++
}

func (in *Interp) mapDelete(m *omap, k value) {
	if m == nil {
		return
	}
	ks := keyString(k)
	i, ok := m.idx[ks]
	if !ok {
		return
	}
	if in.undoOn {
		in.undo = append(in.undo, undoEntry{m: m, mk: ks, midx: i, mold: m.entries[i], mn: m.n})
	}
	delete(m.idx, ks)
	m.entries[i].deleted = true
	m.entries[i].v = nil
	m.n--
}

// ---- globals and package initialisation ----

// packages whose initialisers are never run (fully intrinsic or hostile).
var noInitPkgs = map[string]bool{
	"time": true, "os": true, "syscall": true, "runtime": true, "reflect": true,
	"sync": true, "sync/atomic": true, "fmt": true, "github.com/shopspring/decimal": true,
	"regexp": true, "regexp/syntax": true, "math/big": true, "internal/poll": true,
	"context": true, "net/http": true, "internal/reflectlite": true, "internal/godebug": true,
	"github.com/fatih/color": true, "github.com/spf13/cobra": true, "github.com/spf13/pflag": true,
	"internal/cpu": true, "internal/bytealg": true, "math/rand": true, "io/fs": true, "path/filepath": true,
	"internal/oserror": true, "internal/testlog": true, "errors": true, "internal/abi": true, "unsafe": true, "encoding/json": true, "log": true,
}

// initAllowed: package initialisers are interpreted only for knut's own
// packages and a small allowlist of pure-Go libraries whose package-level
// tables the interpreted code needs. Everything else keeps zero-valued globals
// (their functions are intercepted or only touch state they build themselves).
func initAllowed(path string) bool {
	if strings.HasPrefix(path, "github.com/sboehler/knut") {
		return true
	}
	switch path {
	case "unicode", "unicode/utf8", "strings", "strconv", "sort", "bytes", "bufio", "io", "math", "math/bits",
		"cmp", "slices", "maps", "golang.org/x/exp/slices", "golang.org/x/exp/constraints", "golang.org/x/exp/maps",
		"container/heap", "container/list", "encoding/csv", "path", "go.uber.org/multierr":
		return true
	}
	return false
}

func (in *Interp) ensureInit(pkg *ssa.Package) {
	if pkg == nil || in.inited[pkg] {
		return
	}
	in.inited[pkg] = true
	for _, m := range pkg.Members {
		if g, ok := m.(*ssa.Global); ok {
			if _, ok := in.globals[g]; !ok {
				cell := zero(deref(g.Type()))
				in.globals[g] = &cell
			}
		}
	}
	if !initAllowed(pkg.Pkg.Path()) {
		return
	}
	initFn := pkg.Func("init")
	if initFn == nil || initFn.Blocks == nil {
		return
	}
	saved := in.undoOn
	in.undoOn = false
	in.initing++
	defer func() {
		in.initing--
		in.undoOn = saved
	}()
	savedTop := in.initTop
	in.initTop = initFn
	defer func() { in.initTop = savedTop }()
	in.callSSA(nil, token.NoPos, initFn, nil, nil)
}

func (in *Interp) global(g *ssa.Global) *value {
	if g.Pkg != nil && g.Pkg.Pkg.Path() == "os" && (g.Name() == "Stdout" || g.Name() == "Stderr") && in.run != nil {
		// the process's standard streams are files of the file-system model
		key := "/dev/" + strings.ToLower(g.Name())
		st := in.fs()
		if st.std == nil {
			st.std = map[string]*value{}
		}
		if c, ok := st.std[key]; ok {
			return c
		}
		st.files[key] = &fsFile{exists: true}
		var cell value = fileValue(&fsHandle{path: key})
		st.std[key] = &cell
		return &cell
	}
	if p, ok := in.globals[g]; ok {
		return p
	}
	in.ensureInit(g.Pkg)
	if p, ok := in.globals[g]; ok {
		return p
	}
	cell := zero(deref(g.Type()))
	in.globals[g] = &cell
	return &cell
}

// ---- frames ----

func (fr *frame) get(key ssa.Value) value {
	switch key := key.(type) {
	case nil:
		return nil
	case *ssa.Function, *ssa.Builtin:
		return key
	case *ssa.Const:
		return constValue(key)
	case *ssa.Global:
		return fr.in.global(key)
	}
	if r, ok := fr.env[key]; ok {
		return r
	}
	panic(fmt.Sprintf("get: no value for %T: %v in %s", key, key.Name(), fr.fn))
}

func (fr *frame) runDefer(d *deferred) {
	var ok bool
	defer func() {
		if !ok {
			p := recover()
			if _, isT := p.(targetPanic); isT {
				fr.panicking = true
				fr.panic = p
			} else {
				panic(p)
			}
		}
	}()
	fr.in.call(fr, d.instr.Pos(), d.fn, d.args)
	ok = true
}

func (fr *frame) runDefers() {
	for d := fr.defers; d != nil; d = d.tail {
		fr.runDefer(d)
	}
	fr.defers = nil
	if fr.panicking {
		panic(fr.panic)
	}
}

func (in *Interp) rtPanic(format string, a ...interface{}) {
	msg := "runtime error: " + fmt.Sprintf(format, a...)
	panic(targetPanic{v: iface{t: in.runtimeErrorType(), v: msg}, msg: msg, rt: true, where: in.where()})
}

func (in *Interp) where() string {
	if in.curFrame == nil {
		return ""
	}
	return in.Prog.Fset.Position(in.curFrame.pos).String() + " in " + targetStack(in.curFrame)
}

func (in *Interp) runtimeErrorType() types.Type {
	if in.errType == nil {
		// use errors.errorString-like carrier: *errors.errorString is not exported; we use
		// runtime.errorString if loaded, else plain string type.
		if p := in.Prog.ImportedPackage("runtime"); p != nil {
			if t := p.Type("errorString"); t != nil {
				in.errType = t.Object().Type()
			}
		}
		if in.errType == nil {
			in.errType = types.Typ[types.String]
		}
	}
	return in.errType
}

func (in *Interp) lookupMethod(typ types.Type, meth *types.Func) *ssa.Function {
	return in.Prog.LookupMethod(typ, meth.Pkg(), meth.Name())
}

func (in *Interp) prepareCall(fr *frame, call *ssa.CallCommon) (fn value, args []value) {
	v := fr.get(call.Value)
	if call.Method == nil {
		fn = v
	} else {
		recv := v.(iface)
		if recv.t == nil {
			in.rtPanic("invalid memory address or nil pointer dereference (method %s invoked on nil interface)", call.Method.Name())
		}
		f := in.lookupMethod(recv.t, call.Method)
		if f == nil {
			panic(fmt.Sprintf("method set for dynamic type %v does not contain %s", recv.t, call.Method))
		}
		fn = f
		args = append(args, recv.v)
	}
	for _, arg := range call.Args {
		args = append(args, fr.get(arg))
	}
	return
}

func (in *Interp) call(caller *frame, callpos token.Pos, fn value, args []value) value {
	switch fn := fn.(type) {
	case *ssa.Function:
		if fn == nil {
			in.rtPanic("invalid memory address or nil pointer dereference (call of nil func)")
		}
		return in.callSSA(caller, callpos, fn, args, nil)
	case *closure:
		return in.callSSA(caller, callpos, fn.Fn, args, fn.Env)
	case *ssa.Builtin:
		return in.callBuiltin(caller, callpos, fn, args)
	case *nativeFunc:
		return fn.f(in, caller, args)
	}
	panic(fmt.Sprintf("cannot call %T", fn))
}

// nativeFunc is an engine-implemented function value.
type nativeFunc struct {
	name string
	f    func(in *Interp, fr *frame, args []value) value
}

func fnKey(fn *ssa.Function) string {
	s := fn.String()
	if i := strings.IndexByte(s, '['); i >= 0 && fn.Origin() != nil {
		return fn.Origin().String()
	}
	return s
}

func (in *Interp) callSSA(caller *frame, callpos token.Pos, fn *ssa.Function, args []value, env []value) value {
	if fn.Parent() == nil {
		key, ok := in.keyCache[fn]
		if !ok {
			key = fnKey(fn)
			if in.keyCache == nil {
				in.keyCache = map[*ssa.Function]string{}
				in.knutFn = map[*ssa.Function]bool{}
			}
			in.keyCache[fn] = key
			in.knutFn[fn] = fn.Pkg != nil && strings.HasPrefix(fn.Pkg.Pkg.Path(), "github.com/sboehler/knut")
		}
		if in.initing == 0 {
			if ov, ok := in.overrides[key]; ok {
				in.StubsHit["override:"+key] = true
				return in.call(caller, callpos, ov, args)
			}
		}
		if ext := in.intrinsics[key]; ext != nil {
			in.StubsHit[key] = true
			fr := &frame{in: in, caller: caller, fn: fn, pos: callpos}
			return ext(in, fr, fn, args)
		}
		if fn.Synthetic == "package initializer" && in.initing > 0 && fn != in.initTop {
			// nested package initialisers are run lazily when first touched
			in.ensureInit(fn.Pkg)
			return nil
		}
		if fn.Pkg != nil && !in.inited[fn.Pkg] {
			in.ensureInit(fn.Pkg)
		}
		if fn.Blocks == nil {
			panic(unsupported{"no code for function: " + fn.String()})
		}
		if in.knutFn[fn] && !in.FuncsHit[key] {
			in.FuncsHit[key] = true
		}
	}
	if fn.TypeParams().Len() > 0 && len(fn.TypeArgs()) == 0 {
		panic(unsupported{"uninstantiated generic function " + fn.String()})
	}
	fr := &frame{in: in, caller: caller, fn: fn, pos: callpos}
	fr.env = make(map[ssa.Value]value, 16)
	fr.block = fn.Blocks[0]
	fr.locals = make([]value, len(fn.Locals))
	for i, l := range fn.Locals {
		fr.locals[i] = zero(deref(l.Type()))
		fr.env[l] = &fr.locals[i]
	}
	for i, p := range fn.Params {
		fr.env[p] = args[i]
	}
	for i, fv := range fn.FreeVars {
		fr.env[fv] = env[i]
	}
	for fr.block != nil {
		in.runFrame(fr)
	}
	return fr.result
}

func (in *Interp) runFrame(fr *frame) {
	defer func() {
		if fr.block == nil {
			return // normal return
		}
		p := recover()
		switch p.(type) {
		case targetPanic:
		default:
			if re, ok := p.(runtime.Error); ok {
				// engine bug or unguarded runtime error inside the engine
				panic(engineError{fmt.Sprintf("%v in %s at %s\ntarget stack: %s", re, fr.fn, in.Prog.Fset.Position(fr.pos), targetStack(fr)), stack()})
			}
			panic(p)
		}
		fr.panicking = true
		fr.panic = p
		fr.runDefers()
		fr.block = fr.fn.Recover
		if fr.block == nil {
			// no recover block: the function returns zero results after a recovered panic
			fr.result = zeroResults(fr.fn)
		}
	}()
	for {
		nonPhis := executePhis(fr)
		for _, instr := range nonPhis {
			in.Steps++
			if in.Steps > in.MaxSteps {
				panic(pathEnd{"budget"})
			}
			if in.visitInstr(fr, instr) == kReturn {
				return
			}
		}
	}
}

func targetStack(fr *frame) string {
	var parts []string
	for f := fr; f != nil && len(parts) < 25; f = f.caller {
		parts = append(parts, f.fn.String())
	}
	return strings.Join(parts, " <- ")
}

type engineError struct {
	msg   string
	stack string
}

func stack() string {
	buf := make([]byte, 1<<14)
	n := runtime.Stack(buf, false)
	return string(buf[:n])
}

func zeroResults(fn *ssa.Function) value {
	res := fn.Signature.Results()
	switch res.Len() {
	case 0:
		return nil
	case 1:
		return zero(res.At(0).Type())
	}
	t := make(tuple, res.Len())
	for i := range t {
		t[i] = zero(res.At(i).Type())
	}
	return t
}

func executePhis(fr *frame) []ssa.Instruction {
	firstNonPhi := -1
	for i, instr := range fr.block.Instrs {
		if _, ok := instr.(*ssa.Phi); !ok {
			firstNonPhi = i
			break
		}
	}
	nonPhis := fr.block.Instrs[firstNonPhi:]
	if firstNonPhi > 0 {
		phis := fr.block.Instrs[:firstNonPhi]
		predIndex := -1
		for i, p := range fr.block.Preds {
			if p == fr.prevBlock {
				predIndex = i
				break
			}
		}
		fr.phitemps = fr.phitemps[:0]
		for _, phi := range phis {
			phi := phi.(*ssa.Phi)
			fr.phitemps = append(fr.phitemps, fr.get(phi.Edges[predIndex]))
		}
		for i, phi := range phis {
			fr.env[phi.(*ssa.Phi)] = fr.phitemps[i]
		}
	}
	return nonPhis
}

type continuation int

const (
	kNext continuation = iota
	kReturn
	kJump
)

func (in *Interp) derefPtr(p value, what string) *value {
	pp, ok := p.(*value)
	if !ok {
		panic(fmt.Sprintf("derefPtr(%s): not a pointer: %T", what, p))
	}
	if pp == nil {
		in.rtPanic("invalid memory address or nil pointer dereference")
	}
	return pp
}

func (in *Interp) visitInstr(fr *frame, instr ssa.Instruction) continuation {
	fr.pos = instr.Pos()
	in.curFrame = fr
	switch instr := instr.(type) {
	case *ssa.DebugRef:

	case *ssa.UnOp:
		fr.env[instr] = in.unop(fr, instr, fr.get(instr.X))

	case *ssa.BinOp:
		fr.env[instr] = in.binop(instr.Op, instr.X.Type(), instr.Y.Type(), fr.get(instr.X), fr.get(instr.Y))

	case *ssa.Call:
		fn, args := in.prepareCall(fr, &instr.Call)
		fr.env[instr] = in.call(fr, instr.Pos(), fn, args)

	case *ssa.ChangeInterface:
		fr.env[instr] = fr.get(instr.X)

	case *ssa.ChangeType:
		fr.env[instr] = fr.get(instr.X)

	case *ssa.Convert:
		fr.env[instr] = in.conv(instr.Type(), instr.X.Type(), fr.get(instr.X))

	case *ssa.SliceToArrayPointer:
		panic(unsupported{"SliceToArrayPointer"})

	case *ssa.MakeInterface:
		fr.env[instr] = iface{t: instr.X.Type(), v: fr.get(instr.X)}

	case *ssa.Extract:
		fr.env[instr] = fr.get(instr.Tuple).(tuple)[instr.Index]

	case *ssa.Slice:
		fr.env[instr] = in.slice(instr, fr.get(instr.X), fr.get(instr.Low), fr.get(instr.High), fr.get(instr.Max))

	case *ssa.Return:
		switch len(instr.Results) {
		case 0:
		case 1:
			fr.result = fr.get(instr.Results[0])
		default:
			res := make(tuple, 0, len(instr.Results))
			for _, r := range instr.Results {
				res = append(res, fr.get(r))
			}
			fr.result = res
		}
		fr.block = nil
		return kReturn

	case *ssa.RunDefers:
		fr.runDefers()

	case *ssa.Panic:
		v := fr.get(instr.X)
		panic(targetPanic{v: v, msg: in.panicString(fr, v)})

	case *ssa.Send, *ssa.Go, *ssa.MakeChan, *ssa.Select:
		panic(unsupported{fmt.Sprintf("concurrency instruction %T in %s", instr, fr.fn)})

	case *ssa.Store:
		if sp, ok := fr.get(instr.Addr).(*symPtr); ok {
			i := in.concretize(sp.idx, "store through symbolic index").(int64)
			in.store(deref(instr.Addr.Type()), sp.cells[i], fr.get(instr.Val))
			break
		}
		addr := in.derefPtr(fr.get(instr.Addr), "store")
		in.store(deref(instr.Addr.Type()), addr, fr.get(instr.Val))

	case *ssa.If:
		succ := 1
		if in.truth(fr.get(instr.Cond)) {
			succ = 0
		}
		fr.prevBlock, fr.block = fr.block, fr.block.Succs[succ]
		return kJump

	case *ssa.Jump:
		fr.prevBlock, fr.block = fr.block, fr.block.Succs[0]
		return kJump

	case *ssa.Defer:
		fn, args := in.prepareCall(fr, &instr.Call)
		defers := &fr.defers
		if instr.DeferStack != nil {
			if into := fr.get(instr.DeferStack); into != nil {
				defers = into.(**deferred)
			}
		}
		*defers = &deferred{fn: fn, args: args, instr: instr, tail: *defers}

	case *ssa.Alloc:
		var addr *value
		if instr.Heap {
			addr = new(value)
			fr.env[instr] = addr
		} else {
			addr = fr.env[instr].(*value)
		}
		*addr = zero(deref(instr.Type()))

	case *ssa.MakeSlice:
		n := in.concreteInt(fr.get(instr.Cap), "make cap")
		l := in.concreteInt(fr.get(instr.Len), "make len")
		if l < 0 || n < l || n > 1<<24 {
			in.rtPanic("makeslice: len out of range")
		}
		sl := make([]value, n)
		tElt := instr.Type().Underlying().(*types.Slice).Elem()
		for i := range sl {
			sl[i] = zero(tElt)
		}
		fr.env[instr] = sl[:l]

	case *ssa.MakeMap:
		fr.env[instr] = newOmap()

	case *ssa.Range:
		in.curRange = instr
		fr.env[instr] = in.rangeIter(fr, fr.get(instr.X), instr.X.Type())

	case *ssa.Next:
		fr.env[instr] = fr.get(instr.Iter).(iter).next()

	case *ssa.FieldAddr:
		if sp, ok := fr.get(instr.X).(*symPtr); ok {
			np := &symPtr{idx: sp.idx, cells: make([]*value, len(sp.cells))}
			for k, c := range sp.cells {
				np.cells[k] = &(*c).(structure)[instr.Field]
			}
			fr.env[instr] = np
			break
		}
		p := in.derefPtr(fr.get(instr.X), "fieldaddr")
		fr.env[instr] = &(*p).(structure)[instr.Field]

	case *ssa.Field:
		fr.env[instr] = fr.get(instr.X).(structure)[instr.Field]

	case *ssa.IndexAddr:
		x := fr.get(instr.X)
		switch x := x.(type) {
		case []value:
			if sp := in.symIndexAddr(x, fr.get(instr.Index)); sp != nil {
				fr.env[instr] = sp
				break
			}
			i := in.indexCheck(fr.get(instr.Index), len(x))
			fr.env[instr] = &x[i]
		case *value:
			if x == nil {
				in.rtPanic("invalid memory address or nil pointer dereference")
			}
			a := (*x).(array)
			if sp := in.symIndexAddr(a, fr.get(instr.Index)); sp != nil {
				fr.env[instr] = sp
				break
			}
			i := in.indexCheck(fr.get(instr.Index), len(a))
			fr.env[instr] = &a[i]
		default:
			panic(fmt.Sprintf("unexpected x type in IndexAddr: %T", x))
		}

	case *ssa.Index:
		fr.env[instr] = in.index(fr.get(instr.X), fr.get(instr.Index))

	case *ssa.Lookup:
		fr.env[instr] = in.lookup(instr, fr.get(instr.X), fr.get(instr.Index))

	case *ssa.MapUpdate:
		m, _ := fr.get(instr.Map).(*omap)
		if m == nil {
			panic(targetPanic{msg: "assignment to entry in nil map", v: iface{t: in.runtimeErrorType(), v: "assignment to entry in nil map"}, rt: true})
		}
		in.mapInsert(m, in.mapKey(fr.get(instr.Key)), fr.get(instr.Value))

	case *ssa.TypeAssert:
		fr.env[instr] = in.typeAssert(instr, fr.get(instr.X).(iface))

	case *ssa.MakeClosure:
		var bindings []value
		for _, binding := range instr.Bindings {
			bindings = append(bindings, fr.get(binding))
		}
		fr.env[instr] = &closure{instr.Fn.(*ssa.Function), bindings}

	case *ssa.Phi:
		panic("unreachable: phi")

	default:
		panic(unsupported{fmt.Sprintf("unexpected instruction: %T", instr)})
	}
	return kNext
}

// symPtr is the address of an element selected by a symbolic index out of
// concretely known cells; loads become ite-chains.
type symPtr struct {
	cells []*value
	idx   *Sym
}

// symIndexAddr returns a symPtr for a symbolic index into a small array of
// scalars/structs (after the bounds check), or nil to fall back.
func (in *Interp) symIndexAddr(a []value, idx value) *symPtr {
	s, ok := idx.(*Sym)
	if !ok || len(a) == 0 || len(a) > 1024 {
		return nil
	}
	if !in.branch(in.inRangeTerm(s, int64(len(a)))) {
		in.rtPanic("index out of range [symbolic] with length %d", len(a))
	}
	sp := &symPtr{idx: s, cells: make([]*value, len(a))}
	for k := range a {
		sp.cells[k] = &a[k]
	}
	return sp
}

// loadSym loads through a symPtr: ite-chain over runs of equal scalar values.
func (in *Interp) loadSym(sp *symPtr, T types.Type) value {
	b := basicOf(T)
	if b == nil {
		// aggregate: concretise the index
		i := in.concretize(sp.idx, "symbolic element index").(int64)
		return load(T, sp.cells[i])
	}
	var sort Sort
	if b.Kind() == types.Bool {
		sort = BoolSort
	} else if w, _ := intInfo(b.Kind()); w != 0 {
		sort = BV(w)
	} else {
		i := in.concretize(sp.idx, "symbolic element index").(int64)
		return load(T, sp.cells[i])
	}
	allConc := true
	for _, c := range sp.cells {
		if _, ok := (*c).(*Sym); ok {
			allConc = false
		}
	}
	n := len(sp.cells)
	term := func(k int) *Term {
		v := *sp.cells[k]
		if sv, ok := v.(*Sym); ok && sv.T.Sort != sort {
			return in.coerce(sv.T, sort, true)
		}
		return in.toTerm(v, sort)
	}
	idxConst := func(k int) *Term {
		if sp.idx.T.Sort.K == SInt {
			return IntConst(int64(k))
		}
		return BVConst(int64(k), sp.idx.T.Sort.W)
	}
	le := func(k int) *Term {
		if sp.idx.T.Sort.K == SInt {
			return in.TC.App(BoolSort, "<=", sp.idx.T, idxConst(k))
		}
		return in.TC.App(BoolSort, "bvule", sp.idx.T, idxConst(k))
	}
	res := term(n - 1)
	k := n - 2
	for k >= 0 {
		// run of equal values ending at k
		cur := term(k)
		j := k
		if allConc {
			for j > 0 && term(j-1).S == cur.S {
				j--
			}
		}
		if cur.S != res.S {
			res = in.TC.Ite(le(k), cur, res)
		}
		k = j - 1
	}
	if sort.K == SBool {
		return symOrBool(res)
	}
	if _, ok := isConstBV(res); ok && allConc {
		return *sp.cells[n-1]
	}
	return &Sym{T: res}
}

// mapKey normalises a key for map use: symbolic leaves are concretised by
// forking (strings must already be concrete).
func (in *Interp) mapKey(k value) value {
	switch k := k.(type) {
	case *SymStr:
		if s, ok := k.concrete(); ok {
			return s
		}
		panic(unsupported{"symbolic string used as map key"})
	case *Sym:
		return in.concretize(k, "map key")
	case Tm:
		if k.T != nil {
			return in.concreteTm(k)
		}
	case structure:
		var out structure
		for i, f := range k {
			nf := in.mapKey(f)
			if out == nil {
				switch nf.(type) {
				case structure, array:
					// always copy nested aggregates lazily below
				}
				if !sameLeaf(nf, f) {
					out = append(structure{}, k...)
				}
			}
			if out != nil {
				out[i] = nf
			}
		}
		if out != nil {
			return out
		}
	case iface:
		if k.t != nil {
			nv := in.mapKey(k.v)
			if !sameLeaf(nv, k.v) {
				return iface{t: k.t, v: nv}
			}
		}
	}
	return k
}

func sameLeaf(a, b value) bool {
	switch x := a.(type) {
	case Tm:
		y, ok := b.(Tm)
		return ok && x.T == y.T && x.C == y.C
	case *Sym:
		return a == b
	case string:
		y, ok := b.(string)
		return ok && x == y
	case int64:
		y, ok := b.(int64)
		return ok && x == y
	case structure:
		y, ok := b.(structure)
		if !ok || len(x) != len(y) {
			return false
		}
		for i := range x {
			if !sameLeaf(x[i], y[i]) {
				return false
			}
		}
		return true
	}
	return true
}

func (in *Interp) panicString(fr *frame, v value) string {
	if i, ok := v.(iface); ok {
		switch x := i.v.(type) {
		case string:
			return x
		case *SymStr:
			return "<symbolic string>"
		}
		if i.t != nil {
			// error or Stringer: try Error()
			if m := in.findMethod(i.t, "Error"); m != nil {
				defer func() { recover() }()
				r := in.call(fr, token.NoPos, m, []value{i.v})
				if s, ok := r.(string); ok {
					return s
				}
			}
			return fmt.Sprintf("(%s) %s", i.t, toString(i.v))
		}
	}
	return toString(v)
}

func (in *Interp) findMethod(t types.Type, name string) *ssa.Function {
	ms := in.Prog.MethodSets.MethodSet(t)
	for i := 0; i < ms.Len(); i++ {
		sel := ms.At(i)
		if sel.Obj().Name() == name {
			return in.Prog.MethodValue(sel)
		}
	}
	return nil
}

// truth evaluates a (possibly symbolic) boolean, forking when needed.
func (in *Interp) truth(v value) bool {
	switch v := v.(type) {
	case bool:
		return v
	case *Sym:
		return in.branch(v.T)
	}
	panic(fmt.Sprintf("truth: unexpected %T", v))
}

func (in *Interp) concreteInt(v value, what string) int64 {
	switch v := v.(type) {
	case nil:
		return 0
	case int64:
		return v
	case *Sym:
		return in.concretize(v, what).(int64)
	}
	panic(fmt.Sprintf("concreteInt(%s): unexpected %T", what, v))
}

// indexCheck returns a concrete in-range index or raises the Go runtime panic.
func (in *Interp) indexCheck(idx value, n int) int64 {
	switch i := idx.(type) {
	case int64:
		if i < 0 || i >= int64(n) {
			in.rtPanic("index out of range [%d] with length %d", i, n)
		}
		return i
	case *Sym:
		inRange := in.inRangeTerm(i, int64(n))
		if !in.branch(inRange) {
			in.rtPanic("index out of range [symbolic] with length %d", n)
		}
		return in.concretize(i, "index").(int64)
	}
	panic(fmt.Sprintf("indexCheck: unexpected %T", idx))
}

// inRangeTerm builds 0 <= i < n.
func (in *Interp) inRangeTerm(i *Sym, n int64) *Term {
	if i.T.Sort.K == SInt {
		return in.TC.And(in.TC.App(BoolSort, "<=", IntConst(0), i.T), in.TC.App(BoolSort, "<", i.T, IntConst(n)))
	}
	// as unsigned compare covers negatives for signed ints
	if w := i.T.Sort.W; w < 63 && n >= int64(1)<<uint(w) {
		return TrueT
	}
	return in.TC.App(BoolSort, "bvult", i.T, BVConst(n, i.T.Sort.W))
}

func (in *Interp) index(x, idx value) value {
	switch x := x.(type) {
	case array:
		return x[in.indexCheck(idx, len(x))]
	case string:
		if s, ok := idx.(*Sym); ok {
			return in.symIndexString(x, s)
		}
		i := in.indexCheck(idx, len(x))
		return int64(x[i])
	case *SymStr:
		i := in.indexCheck(idx, len(x.E))
		return x.E[i]
	}
	panic(fmt.Sprintf("unexpected x type in Index: %T", x))
}

// symIndexString returns s[i] for a concrete string and symbolic index as an
// ite-chain (after the bounds check).
func (in *Interp) symIndexString(s string, i *Sym) value {
	if !in.branch(in.inRangeTerm(i, int64(len(s)))) {
		in.rtPanic("index out of range [symbolic] with length %d", len(s))
	}
	res := BVConst(int64(s[len(s)-1]), 8)
	for k := len(s) - 2; k >= 0; k-- {
		var c *Term
		if i.T.Sort.K == SInt {
			c = in.TC.Eq(i.T, IntConst(int64(k)))
		} else {
			c = in.TC.Eq(i.T, BVConst(int64(k), i.T.Sort.W))
		}
		res = in.TC.Ite(c, BVConst(int64(s[k]), 8), res)
	}
	return &Sym{T: res}
}

func (in *Interp) lookup(instr *ssa.Lookup, x, idx value) value {
	switch x := x.(type) {
	case *omap:
		v, ok := x.get(in.mapKey(idx))
		if !ok {
			v = zero(instr.X.Type().Underlying().(*types.Map).Elem())
		} else {
			v = copyVal(v)
		}
		if instr.CommaOk {
			return tuple{v, ok}
		}
		return v
	case string, *SymStr:
		return in.index(x, idx)
	}
	panic(fmt.Sprintf("unexpected x type in Lookup: %T", x))
}

func (in *Interp) slice(instr *ssa.Slice, x, lo, hi, max value) value {
	var Len, Cap int
	switch x := x.(type) {
	case string:
		Len = len(x)
		Cap = Len
	case *SymStr:
		Len = len(x.E)
		Cap = Len
	case []value:
		Len = len(x)
		Cap = cap(x)
	case *value:
		if x == nil {
			in.rtPanic("invalid memory address or nil pointer dereference")
		}
		a := (*x).(array)
		Len = len(a)
		Cap = cap(a)
	default:
		panic(fmt.Sprintf("slice: unexpected X type: %T", x))
	}
	l := int64(0)
	if lo != nil {
		l = in.concreteIntBounded(lo, int64(Cap), "slice lo")
	}
	h := int64(Len)
	if hi != nil {
		h = in.concreteIntBounded(hi, int64(Cap), "slice hi")
	}
	m := int64(Cap)
	if max != nil {
		m = in.concreteIntBounded(max, int64(Cap), "slice max")
	}
	if l < 0 || h < l || m < h || m > int64(Cap) {
		in.rtPanic("slice bounds out of range [%d:%d:%d] with capacity %d", l, h, m, Cap)
	}
	switch x := x.(type) {
	case string:
		return x[l:h]
	case *SymStr:
		return normStr(x.E[l:h])
	case []value:
		return x[l:h:m]
	case *value:
		a := (*x).(array)
		return []value(a)[l:h:m]
	}
	panic("unreachable")
}

// concreteIntBounded concretises v; a symbolic value outside [0,cap] leads to
// the runtime panic path.
func (in *Interp) concreteIntBounded(v value, cap int64, what string) int64 {
	switch v := v.(type) {
	case int64:
		return v
	case *Sym:
		ok := in.inRangeTerm(v, cap+1)
		if !in.branch(ok) {
			in.rtPanic("slice bounds out of range (symbolic %s)", what)
		}
		return in.concretize(v, what).(int64)
	}
	panic(fmt.Sprintf("concreteIntBounded: %T", v))
}

func (in *Interp) typeAssert(instr *ssa.TypeAssert, itf iface) value {
	var v value
	err := ""
	if itf.t == nil {
		err = fmt.Sprintf("interface conversion: interface is nil, not %s", instr.AssertedType)
	} else if idst, ok := instr.AssertedType.Underlying().(*types.Interface); ok {
		v = itf
		if meth, _ := types.MissingMethod(itf.t, idst, true); meth != nil {
			err = fmt.Sprintf("interface conversion: %v is not %v: missing method %s", itf.t, idst, meth.Name())
		}
	} else if types.Identical(itf.t, instr.AssertedType) {
		v = itf.v
	} else {
		err = fmt.Sprintf("interface conversion: interface is %s, not %s", itf.t, instr.AssertedType)
	}
	if err != "" {
		if !instr.CommaOk {
			panic(targetPanic{v: iface{t: in.runtimeErrorType(), v: err}, msg: err, rt: true})
		}
		return tuple{zero(instr.AssertedType), false}
	}
	if instr.CommaOk {
		return tuple{v, true}
	}
	return v
}

func (in *Interp) callBuiltin(caller *frame, callpos token.Pos, fn *ssa.Builtin, args []value) value {
	switch fn.Name() {
	case "append":
		if len(args) == 1 {
			return args[0]
		}
		arg0, _ := args[0].([]value)
		switch s := args[1].(type) {
		case string:
			for i := 0; i < len(s); i++ {
				arg0 = in.appendOne(arg0, int64(s[i]))
			}
			return arg0
		case *SymStr:
			for _, e := range s.E {
				arg0 = in.appendOne(arg0, e)
			}
			return arg0
		case []value:
			for _, e := range s {
				arg0 = in.appendOne(arg0, copyVal(e))
			}
			return arg0
		case nil:
			return arg0
		}
		panic(fmt.Sprintf("append: unexpected %T", args[1]))

	case "copy":
		dst, _ := args[0].([]value)
		var src []value
		switch s := args[1].(type) {
		case string:
			src = make([]value, len(s))
			for i := 0; i < len(s); i++ {
				src[i] = int64(s[i])
			}
		case *SymStr:
			src = s.E
		case []value:
			src = s
		}
		n := len(dst)
		if len(src) < n {
			n = len(src)
		}
		tmp := make([]value, n)
		for i := 0; i < n; i++ {
			tmp[i] = copyVal(src[i])
		}
		for i := 0; i < n; i++ {
			in.logStore(&dst[i])
			dst[i] = tmp[i]
		}
		return int64(n)

	case "close":
		panic(unsupported{"close(chan)"})

	case "delete":
		m, _ := args[0].(*omap)
		in.mapDelete(m, in.mapKey(args[1]))
		return nil

	case "clear":
		switch m := args[0].(type) {
		case *omap:
			if m != nil {
				for _, e := range append([]omapEntry(nil), m.entries...) {
					if !e.deleted {
						in.mapDelete(m, e.k)
					}
				}
			}
		default:
			panic(unsupported{"clear of non-map"})
		}
		return nil

	case "print", "println":
		return nil

	case "len":
		switch x := args[0].(type) {
		case string:
			return int64(len(x))
		case *SymStr:
			return int64(len(x.E))
		case array:
			return int64(len(x))
		case *value:
			return int64(len((*x).(array)))
		case []value:
			return int64(len(x))
		case *omap:
			return int64(x.len())
		case nil:
			return int64(0)
		}
		panic(fmt.Sprintf("len: illegal operand: %T", args[0]))

	case "cap":
		switch x := args[0].(type) {
		case array:
			return int64(cap(x))
		case *value:
			return int64(cap((*x).(array)))
		case []value:
			return int64(cap(x))
		}
		panic(fmt.Sprintf("cap: illegal operand: %T", args[0]))

	case "min", "max":
		res := args[0]
		t := fn.Type().(*types.Signature).Params().At(0).Type()
		for _, a := range args[1:] {
			op := token.LSS
			if fn.Name() == "max" {
				op = token.GTR
			}
			if in.truth(in.binop(op, t, t, a, res)) {
				res = a
			}
		}
		return res

	case "panic":
		panic(targetPanic{v: args[0], msg: in.panicString(caller, args[0])})

	case "recover":
		return in.doRecover(caller)

	case "ssa:wrapnilchk":
		recv := args[0]
		if p, ok := recv.(*value); ok && p == nil {
			in.rtPanic("value method %v.%v called using nil pointer", args[1], args[2])
		}
		return recv

	case "ssa:deferstack":
		return &caller.defers
	}
	panic(unsupported{"unknown built-in: " + fn.Name()})
}

// appendOne appends with Go's capacity semantics (in-place when cap allows).
func (in *Interp) appendOne(s []value, v value) []value {
	if len(s) < cap(s) {
		s = s[:len(s)+1]
		in.logStore(&s[len(s)-1])
		s[len(s)-1] = v
		return s
	}
	// grow: Go doubles (approximately); exact growth policy is not observable
	// except through cap(); use doubling.
	nc := 2 * cap(s)
	if nc == 0 {
		nc = 1
	}
	ns := make([]value, len(s)+1, nc)
	copy(ns, s)
	ns[len(s)] = v
	return ns
}

func (in *Interp) doRecover(caller *frame) value {
	if caller != nil && !caller.panicking && caller.caller != nil && caller.caller.panicking {
		caller.caller.panicking = false
		p := caller.caller.panic
		caller.caller.panic = nil
		if tp, ok := p.(targetPanic); ok {
			return tp.v
		}
		panic(fmt.Sprintf("unexpected panic type %T in recover()", p))
	}
	return iface{}
}

// ---- iterators ----

type iter interface {
	next() tuple
}

type mapIter struct {
	m     *omap
	order []int
	i     int
}

func (it *mapIter) next() tuple {
	for it.i < len(it.order) {
		e := it.m.entries[it.order[it.i]]
		it.i++
		if !e.deleted {
			return tuple{true, e.k, copyVal(e.v)}
		}
	}
	return tuple{false, nil, nil}
}

type strIter struct {
	in  *Interp
	fr  *frame
	s   value // string or *SymStr
	pos int
}

func (it *strIter) next() tuple {
	switch s := it.s.(type) {
	case string:
		if it.pos >= len(s) {
			return tuple{false, int64(0), int64(0)}
		}
		r, w := decodeRune(s[it.pos:])
		p := it.pos
		it.pos += w
		return tuple{true, int64(p), int64(r)}
	case *SymStr:
		if it.pos >= len(s.E) {
			return tuple{false, int64(0), int64(0)}
		}
		r, w := it.in.decodeRuneSym(it.fr, normStr(s.E[it.pos:]))
		p := it.pos
		it.pos += int(w)
		return tuple{true, int64(p), r}
	}
	panic("strIter")
}

func (in *Interp) rangeIter(fr *frame, x value, t types.Type) iter {
	switch x := x.(type) {
	case *omap:
		it := &mapIter{m: x}
		if x != nil {
			n := len(x.entries)
			it.order = make([]int, 0, n)
			for i := 0; i < n; i++ {
				if !x.entries[i].deleted {
					it.order = append(it.order, i)
				}
			}
			if in.run != nil && len(it.order) > 1 {
				switch {
				case in.run.mapSite >= 0:
					// site-selective: only the chosen range instruction, a bounded number of times
					if site, ok := in.MapSites[in.curRange]; ok && site == in.run.mapSite && in.run.mapSiteBudget > 0 && len(it.order) <= in.run.mapOrderMax {
						in.run.mapSiteBudget--
						in.run.mapSiteHits++
						it.order = in.permute(it.order)
					}
				case in.run.mapOrder && len(it.order) <= in.run.mapOrderMax:
					it.order = in.permute(it.order)
				}
			}
		}
		return it
	case string:
		return &strIter{in: in, fr: fr, s: x}
	case *SymStr:
		return &strIter{in: in, fr: fr, s: x}
	}
	panic(fmt.Sprintf("cannot range over %T", x))
}
