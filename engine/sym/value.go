package sym

import (
	"fmt"
	"go/types"
	"sort"
	"strings"
	"unsafe"

	"github.com/shopspring/decimal"
	"golang.org/x/tools/go/ssa"
)

// value is a dynamic value of the interpreted program.
//
//	bool                      Go bool
//	int64                     every integer type (normalised to its width/signedness)
//	float64                   float32/float64 (concrete only)
//	string                    concrete string
//	*SymStr                   string with symbolic bytes (concrete length)
//	*Sym                      symbolic scalar (bool / integer)
//	*value                    pointer
//	structure, array, []value struct, array, slice
//	*omap                     map (insertion ordered, deterministic)
//	iface                     interface value
//	*closure, *ssa.Function, *ssa.Builtin
//	tuple
//	Dec                       github.com/shopspring/decimal.Decimal (engine type)
//	Tm                        time.Time (engine type)
//	*native                   opaque native object (regexp, ...)
type value = interface{}

type tuple []value
type array []value
type structure []value

type iface struct {
	t types.Type
	v value
}

type closure struct {
	Fn  *ssa.Function
	Env []value
}

// Sym is a symbolic scalar.
type Sym struct {
	T *Term
}

// SymStr is a string whose bytes may be symbolic. Each element is int64
// (0..255) or *Sym of sort BV8, or *Tok (opaque decimal text token).
type SymStr struct {
	E []value
}

// Tok is an opaque text token (canonical text of a symbolic decimal). It
// supports concatenation and equality only.
type Tok struct {
	D     Dec
	Fixed int // -1: String(); >=0: StringFixed(Fixed)
}

// Dec models decimal.Decimal. T == nil means concrete (C).
type Dec struct {
	C decimal.Decimal
	T *Term // sort Real: exact value (used when arithmetic is non-linear)
	I *Term // sort Int: coefficient of an integer-scaled symbolic decimal, value = I / 10^S
	S int64
}

// Tm models time.Time restricted to UTC midnights: day number since 0001-01-01.
type Tm struct {
	C      int64 // concrete day number when T == nil
	T      *Term // sort Int
	Lo, Hi int64 // inclusive bounds on the day number (valid when T != nil)
}

type native struct {
	kind string
	obj  interface{}
}

// ---------------------------------------------------------------- ordered map

type omapEntry struct {
	k, v    value
	deleted bool
}

type omap struct {
	idx     map[string]int
	entries []omapEntry
	n       int
}

func newOmap() *omap { return &omap{idx: map[string]int{}} }

func (m *omap) get(k value) (value, bool) {
	if m == nil {
		return nil, false
	}
	i, ok := m.idx[keyString(k)]
	if !ok {
		return nil, false
	}
	return m.entries[i].v, true
}

func (m *omap) len() int {
	if m == nil {
		return 0
	}
	return m.n
}

// keyString builds a canonical string of a concrete map key.
func keyString(k value) string {
	var b strings.Builder
	writeKey(&b, k)
	return b.String()
}

func writeKey(b *strings.Builder, k value) {
	switch k := k.(type) {
	case nil:
		b.WriteString("nil;")
	case bool:
		if k {
			b.WriteString("T;")
		} else {
			b.WriteString("F;")
		}
	case int64:
		fmt.Fprintf(b, "i%d;", k)
	case float64:
		fmt.Fprintf(b, "f%v;", k)
	case string:
		fmt.Fprintf(b, "s%d:%s;", len(k), k)
	case *value:
		fmt.Fprintf(b, "p%x;", uintptr(unsafe.Pointer(k)))
	case structure:
		b.WriteString("{")
		for _, f := range k {
			writeKey(b, f)
		}
		b.WriteString("}")
	case array:
		b.WriteString("[")
		for _, f := range k {
			writeKey(b, f)
		}
		b.WriteString("]")
	case iface:
		if k.t == nil {
			b.WriteString("inil;")
		} else {
			fmt.Fprintf(b, "I%s:", k.t.String())
			writeKey(b, k.v)
		}
	case Tm:
		if k.T != nil {
			panic(unsupported{"symbolic time.Time used as map key: " + k.T.S})
		}
		fmt.Fprintf(b, "t%d;", k.C)
	case Dec:
		if k.isSym() {
			panic(unsupported{"symbolic decimal used as map key"})
		}
		fmt.Fprintf(b, "d%s;", k.C.String())
	case *omap:
		fmt.Fprintf(b, "m%p;", k)
	case *ssa.Function:
		fmt.Fprintf(b, "fn%p;", k)
	case *closure:
		fmt.Fprintf(b, "cl%p;", k)
	case *native:
		fmt.Fprintf(b, "n%p;", k)
	case *Sym:
		panic(unsupported{"symbolic scalar used as map key: " + k.T.S})
	case *SymStr:
		panic(unsupported{"symbolic string used as map key"})
	default:
		panic(fmt.Sprintf("writeKey: unexpected %T", k))
	}
}

// ---------------------------------------------------------------- type helpers

func deref(t types.Type) types.Type {
	if p, ok := t.Underlying().(*types.Pointer); ok {
		return p.Elem()
	}
	panic(fmt.Sprintf("deref: not a pointer: %v", t))
}

// engineType reports whether t is modelled as an opaque engine value.
func engineType(t types.Type) string {
	t = types.Unalias(t)
	n, ok := t.(*types.Named)
	if !ok {
		return ""
	}
	obj := n.Obj()
	if obj.Pkg() == nil {
		return ""
	}
	switch obj.Pkg().Path() {
	case "time":
		if obj.Name() == "Time" {
			return "time"
		}
	case "github.com/shopspring/decimal":
		if obj.Name() == "Decimal" {
			return "decimal"
		}
	}
	// named types defined on top of time.Time / decimal.Decimal (e.g. `type DateFlag time.Time`)
	if st, ok := n.Underlying().(*types.Struct); ok && st.NumFields() >= 2 {
		f0 := st.Field(0)
		if f0.Pkg() != nil {
			switch {
			case f0.Pkg().Path() == "time" && f0.Name() == "wall" && st.NumFields() == 3:
				return "time"
			case f0.Pkg().Path() == "github.com/shopspring/decimal" && f0.Name() == "value" && st.NumFields() == 2:
				return "decimal"
			}
		}
	}
	return ""
}

func basicOf(t types.Type) *types.Basic {
	b, _ := t.Underlying().(*types.Basic)
	return b
}

// intInfo returns width and signedness for an integer basic kind.
func intInfo(k types.BasicKind) (w int, signed bool) {
	switch k {
	case types.Int, types.Int64, types.UntypedInt, types.UntypedRune:
		return 64, true
	case types.Int8:
		return 8, true
	case types.Int16:
		return 16, true
	case types.Int32:
		return 32, true
	case types.Uint, types.Uint64, types.Uintptr:
		return 64, false
	case types.Uint8:
		return 8, false
	case types.Uint16:
		return 16, false
	case types.Uint32:
		return 32, false
	}
	return 0, false
}

func isIntKind(k types.BasicKind) bool {
	w, _ := intInfo(k)
	return w != 0
}

// normInt normalises v to the representation of kind k.
func normInt(k types.BasicKind, v int64) int64 {
	switch k {
	case types.Int8:
		return int64(int8(v))
	case types.Int16:
		return int64(int16(v))
	case types.Int32:
		return int64(int32(v))
	case types.Uint8:
		return int64(uint8(v))
	case types.Uint16:
		return int64(uint16(v))
	case types.Uint32:
		return int64(uint32(v))
	}
	return v
}

// ---------------------------------------------------------------- zero / load / store

func zero(t types.Type) value {
	switch engineType(t) {
	case "time":
		return Tm{}
	case "decimal":
		return Dec{}
	}
	switch t := t.(type) {
	case *types.Basic:
		if t.Info()&types.IsUntyped != 0 && t.Kind() != types.UntypedNil {
			t = types.Default(t).(*types.Basic)
		}
		switch {
		case t.Kind() == types.Bool:
			return false
		case isIntKind(t.Kind()):
			return int64(0)
		case t.Kind() == types.Float32 || t.Kind() == types.Float64:
			return float64(0)
		case t.Kind() == types.String:
			return ""
		case t.Kind() == types.UnsafePointer:
			return (*value)(nil)
		case t.Kind() == types.UntypedNil:
			return nil
		}
		panic(unsupported{fmt.Sprint("zero for basic type ", t)})
	case *types.Pointer:
		return (*value)(nil)
	case *types.Array:
		a := make(array, t.Len())
		for i := range a {
			a[i] = zero(t.Elem())
		}
		return a
	case *types.Named:
		return zero(t.Underlying())
	case *types.Alias:
		return zero(types.Unalias(t))
	case *types.Interface:
		return iface{}
	case *types.Slice:
		return []value(nil)
	case *types.Struct:
		s := make(structure, t.NumFields())
		for i := range s {
			s[i] = zero(t.Field(i).Type())
		}
		return s
	case *types.Tuple:
		if t.Len() == 1 {
			return zero(t.At(0).Type())
		}
		s := make(tuple, t.Len())
		for i := range s {
			s[i] = zero(t.At(i).Type())
		}
		return s
	case *types.Chan:
		return (*native)(nil)
	case *types.Map:
		return (*omap)(nil)
	case *types.Signature:
		return (*ssa.Function)(nil)
	case *types.TypeParam:
		panic(unsupported{"zero of type parameter (generic not instantiated)"})
	}
	panic(fmt.Sprint("zero: unexpected ", t))
}

func load(T types.Type, addr *value) value {
	if engineType(T) != "" {
		return *addr
	}
	switch T := T.Underlying().(type) {
	case *types.Struct:
		v := (*addr).(structure)
		a := make(structure, len(v))
		for i := range a {
			a[i] = load(T.Field(i).Type(), &v[i])
		}
		return a
	case *types.Array:
		v := (*addr).(array)
		a := make(array, len(v))
		for i := range a {
			a[i] = load(T.Elem(), &v[i])
		}
		return a
	default:
		return *addr
	}
}

// copyVal makes a deep copy of aggregate values (value semantics).
func copyVal(v value) value {
	switch v := v.(type) {
	case structure:
		a := make(structure, len(v))
		for i := range v {
			a[i] = copyVal(v[i])
		}
		return a
	case array:
		a := make(array, len(v))
		for i := range v {
			a[i] = copyVal(v[i])
		}
		return a
	}
	return v
}

func (in *Interp) store(T types.Type, addr *value, v value) {
	if engineType(T) != "" {
		in.logStore(addr)
		*addr = v
		return
	}
	switch T := T.Underlying().(type) {
	case *types.Struct:
		lhs := (*addr).(structure)
		rhs := v.(structure)
		for i := range lhs {
			in.store(T.Field(i).Type(), &lhs[i], rhs[i])
		}
	case *types.Array:
		lhs := (*addr).(array)
		rhs := v.(array)
		for i := range lhs {
			in.store(T.Elem(), &lhs[i], rhs[i])
		}
	default:
		in.logStore(addr)
		*addr = v
	}
}

// ---------------------------------------------------------------- printing (debug)

func toString(v value) string {
	var b strings.Builder
	writeValue(&b, v, 0)
	return b.String()
}

func writeValue(b *strings.Builder, v value, depth int) {
	if depth > 4 {
		b.WriteString("…")
		return
	}
	switch v := v.(type) {
	case nil:
		b.WriteString("<nil>")
	case bool, int64, float64:
		fmt.Fprintf(b, "%v", v)
	case string:
		fmt.Fprintf(b, "%q", v)
	case *Sym:
		b.WriteString("sym:" + v.T.S)
	case *SymStr:
		b.WriteString("symstr[")
		for i, e := range v.E {
			if i > 0 {
				b.WriteByte(' ')
			}
			writeValue(b, e, depth+1)
		}
		b.WriteString("]")
	case *Tok:
		b.WriteString("tok")
	case *value:
		if v == nil {
			b.WriteString("<nilptr>")
		} else {
			fmt.Fprintf(b, "&")
			writeValue(b, *v, depth+1)
		}
	case iface:
		if v.t == nil {
			b.WriteString("<nil iface>")
		} else {
			fmt.Fprintf(b, "(%s)", v.t)
			writeValue(b, v.v, depth+1)
		}
	case structure:
		b.WriteString("{")
		for i, e := range v {
			if i > 0 {
				b.WriteByte(' ')
			}
			writeValue(b, e, depth+1)
		}
		b.WriteString("}")
	case array:
		b.WriteString("[")
		for i, e := range v {
			if i > 0 {
				b.WriteByte(' ')
			}
			writeValue(b, e, depth+1)
		}
		b.WriteString("]")
	case []value:
		b.WriteString("[]{")
		for i, e := range v {
			if i > 0 {
				b.WriteByte(' ')
			}
			if i > 16 {
				b.WriteString("…")
				break
			}
			writeValue(b, e, depth+1)
		}
		b.WriteString("}")
	case *omap:
		fmt.Fprintf(b, "map(%d)", v.len())
	case tuple:
		b.WriteString("(")
		for i, e := range v {
			if i > 0 {
				b.WriteString(", ")
			}
			writeValue(b, e, depth+1)
		}
		b.WriteString(")")
	case Dec:
		if v.T != nil {
			b.WriteString("dec:" + v.T.S)
		} else if v.I != nil {
			fmt.Fprintf(b, "dec:%s/1e%d", v.I.S, v.S)
		} else {
			b.WriteString("dec:" + v.C.String())
		}
	case Tm:
		if v.T != nil {
			b.WriteString("day:" + v.T.S)
		} else {
			y, m, d := civilFromDays(v.C)
			fmt.Fprintf(b, "%04d-%02d-%02d", y, m, d)
		}
	case *ssa.Function:
		if v == nil {
			b.WriteString("<nil func>")
		} else {
			b.WriteString(v.String())
		}
	case *closure:
		b.WriteString("closure:" + v.Fn.String())
	default:
		fmt.Fprintf(b, "<%T>", v)
	}
}

// sortedKeys is a helper for deterministic iteration over Go maps in the engine.
func sortedKeys[V any](m map[string]V) []string {
	ks := make([]string, 0, len(m))
	for k := range m {
		ks = append(ks, k)
	}
	sort.Strings(ks)
	return ks
}
