// symgo: bounded symbolic execution of Go SSA with an SMT solver as the
// deciding step. See /verif/DESIGN.md.
package main

import (
	"crypto/sha256"
	"runtime/debug"
	"runtime/pprof"
	"go/types"
	"encoding/json"
	"flag"
	"fmt"
	"os"
	"os/exec"
	"path/filepath"
	"sort"
	"strings"
	"sync"
	"time"

	"golang.org/x/tools/go/packages"
	"golang.org/x/tools/go/ssa"
	"golang.org/x/tools/go/ssa/ssautil"

	"verif/engine/sym"
)

type tierCfg struct {
	Grid            map[string][]int `json:"grid"`
	Cases           []map[string]int `json:"cases"`
	SolverTimeoutMs int              `json:"solver_timeout_ms"`
	FeasTimeoutMs   int              `json:"feas_timeout_ms"`
	MaxPaths        int              `json:"max_paths"`
	MaxSteps        int64            `json:"max_steps"`
	WitnessEvery    int              `json:"witness_every"`
	MaxWitnesses    int              `json:"max_witnesses"`
	TimeBudgetS     int              `json:"time_budget_s"`
}

type harnessCfg struct {
	Func     string  `json:"func"`
	Quick    tierCfg `json:"quick"`
	Thorough tierCfg `json:"thorough"`
	Bounds   string  `json:"bounds"`
}

type checkCfg struct {
	Property    string       `json:"property"`
	Harnesses   []harnessCfg `json:"harnesses"`
	Assumptions []string     `json:"assumptions"`
	Solver      string       `json:"solver"`
	Solver2     string       `json:"solver2"` // thorough tier: second solver that re-decides every obligation
	Outside     []string     `json:"outside"`
}

type finding struct {
	Property    string `json:"property"`
	ID          string `json:"id"`
	Status      string `json:"status"`
	Commit      string `json:"commit,omitempty"`
	Description string `json:"description"`
	Signature   string `json:"signature"`
}

type instance struct {
	h      *harnessCfg
	fn     *ssa.Function
	params map[string]int
	tier   *tierCfg
}

type instResult struct {
	inst   instance
	stats  sym.Stats
	solver sym.SolverStats
	funcs  []string
	stubs  []string
}

func main() {
	var (
		checkFile = flag.String("check", "", "check config json")
		tier      = flag.String("tier", "quick", "quick|thorough")
		repo      = flag.String("repo", "/repo", "repository")
		verif     = flag.String("verif", "/verif", "verif dir")
		workers   = flag.Int("workers", 16, "parallel workers")
		seed      = flag.Int("seed", 0, "seed")
		solverK   = flag.String("solver", "", "solver kind (default: from check config, else z3)")
		solver2Flag = flag.String("solver2", "", "second solver re-deciding every obligation")
		only      = flag.String("only", "", "only instances whose params match k=v,k=v")
		verbose   = flag.Bool("v", false, "verbose")
		noReplay  = flag.Bool("noreplay", false, "skip native replay")
		smtlog    = flag.String("smtlog", "", "write SMT log of first worker")
		replayFrom = flag.String("replay", "", "replay the counterexample stored in this directory natively against -repo")
	)
	cpuprof := flag.String("cpuprofile", "", "write cpu profile")
	flag.Parse()
	// the loaded SSA program is a large, long-lived heap: collecting less often roughly halves CPU time
	debug.SetGCPercent(1500)
	debug.SetMemoryLimit(12 << 30) // soft limit: collect earlier instead of growing (C03 quick peaked at 20 GB without it)
	if *cpuprof != "" {
		f, _ := os.Create(*cpuprof)
		pprof.StartCPUProfile(f)
		defer pprof.StopCPUProfile()
	}
	t0 := time.Now()
	var cfg checkCfg
	data, err := os.ReadFile(*checkFile)
	if err != nil {
		fatal(err)
	}
	if err := json.Unmarshal(data, &cfg); err != nil {
		fatal(err)
	}
	if *solverK == "" {
		*solverK = cfg.Solver
	}
	if *solverK == "" {
		*solverK = "z3"
	}
	if *tier == "thorough" {
		solver2Kind = cfg.Solver2
	}
	if *solver2Flag != "" {
		solver2Kind = *solver2Flag
	}
	solverName = map[string]string{"z3": "z3 4.8.12", "z3-new": "z3 5.1.0 (z3-new)", "cvc5": "cvc5 1.0"}[*solverK]
	known := map[string]bool{}
	var findings []finding
	if fd, err := os.ReadFile(filepath.Join(*verif, "known_findings.json")); err == nil {
		if err := json.Unmarshal(fd, &findings); err != nil {
			fatal(fmt.Errorf("known_findings.json: %v", err))
		}
		for _, f := range findings {
			if f.Status == "known" {
				known[f.ID] = true
				activeKnown += f.ID + ","
			}
		}
	}

	// ---- overlay ----
	overlay := map[string][]byte{}
	replayOverlay := map[string]string{} // virtual -> real, for go test -overlay
	addOverlay := func(virtual, real string) {
		b, err := os.ReadFile(real)
		if err != nil {
			fatal(err)
		}
		overlay[virtual] = b
	}
	addOverlay(filepath.Join(*repo, "lib/zzverif/zzverif.go"), filepath.Join(*verif, "rt/zzverif_sym/zzverif.go"))
	replayOverlay[filepath.Join(*repo, "lib/zzverif/zzverif.go")] = filepath.Join(*verif, "rt/zzverif/zzverif.go")
	hroot := filepath.Join(*verif, "harness")
	filepath.Walk(hroot, func(p string, info os.FileInfo, err error) error {
		if err != nil || info.IsDir() || !strings.HasSuffix(p, ".go") {
			return nil
		}
		rel, _ := filepath.Rel(hroot, p)
		addOverlay(filepath.Join(*repo, rel), p)
		replayOverlay[filepath.Join(*repo, rel)] = p
		return nil
	})

	if *replayFrom != "" {
		os.Exit(replayStored(*repo, *verif, replayOverlay, &cfg, *replayFrom))
	}

	// ---- load ----
	pkgSet := map[string]bool{}
	for _, h := range cfg.Harnesses {
		i := strings.LastIndex(h.Func, ".")
		pkgSet[h.Func[:i]] = true
	}
	var patterns []string
	for p := range pkgSet {
		patterns = append(patterns, p)
	}
	sort.Strings(patterns)
	patterns = append(patterns, "unicode/utf8", "sort", "errors", "fmt", "strconv")
	lcfg := &packages.Config{
		Mode:    packages.LoadAllSyntax,
		Dir:     *repo,
		Overlay: overlay,
		Env:     append(os.Environ(), "GOFLAGS=-mod=mod", "GOPROXY=off", "GOSUMDB=off", "GOTOOLCHAIN=local"),
	}
	initial, err := packages.Load(lcfg, patterns...)
	if err != nil {
		fatal(err)
	}
	if packages.PrintErrors(initial) > 0 {
		fmt.Println("INCONCLUSIVE: /repo (with harness overlay) does not type-check")
		os.Exit(2)
	}
	prog, _ := ssautil.AllPackages(initial, ssa.InstantiateGenerics)
	prog.Build()
	tLoad := time.Since(t0)
	mapSites, mapSiteNames := enumerateMapRanges(prog)
	globalSiteNames = mapSiteNames

	// ---- instances ----
	var insts []instance
	for hi := range cfg.Harnesses {
		h := &cfg.Harnesses[hi]
		i := strings.LastIndex(h.Func, ".")
		pkgPath, fname := h.Func[:i], h.Func[i+1:]
		var fn *ssa.Function
		for _, p := range prog.AllPackages() {
			if p.Pkg.Path() == pkgPath {
				fn = p.Func(fname)
			}
		}
		if fn == nil {
			fatal(fmt.Errorf("harness %s not found", h.Func))
		}
		tc := &h.Quick
		if *tier == "thorough" {
			tc = &h.Thorough
			if tc.Grid == nil && tc.Cases == nil {
				tc = &h.Quick
			}
		}
		if auto, ok := tc.Grid["site"]; ok && len(auto) == 1 && auto[0] == -1 {
			// "site": [-1] = every map-range site of knut's code (enumerated from the SSA on this run)
			var all []int
			for i := range mapSiteNames {
				all = append(all, i)
			}
			tc.Grid["site"] = all
		}
		for _, params := range expand(tc) {
			if !matchOnly(*only, params) {
				continue
			}
			insts = append(insts, instance{h: h, fn: fn, params: params, tier: tc})
		}
	}
	if len(insts) == 0 {
		fatal(fmt.Errorf("no instances"))
	}

	// ---- run ----
	results := make([]instResult, len(insts))
	var wg sync.WaitGroup
	jobs := make(chan int)
	var mu sync.Mutex
	done := 0
	for w := 0; w < *workers; w++ {
		wg.Add(1)
		go func(w int) {
			defer wg.Done()
			for j := range jobs {
				results[j] = runInstance(prog, insts[j], known, *solverK, w == 0 && *smtlog != "", *smtlog, mapSites)
				mu.Lock()
				done++
				if *verbose {
					r := &results[j]
					fmt.Fprintf(os.Stderr, "[%d/%d] %s %v: paths=%d oblig=%d viol=%d inconcl=%d %.1fs\n", done, len(insts), insts[j].fn.Name(), insts[j].params, r.stats.Paths, r.stats.Obligations, len(r.stats.Violations), len(r.stats.Inconclusive), r.stats.Wall.Seconds())
				}
				mu.Unlock()
			}
		}(w)
	}
	for j := range insts {
		jobs <- j
	}
	close(jobs)
	wg.Wait()

	// ---- aggregate ----
	agg := aggregate(results)
	agg.loadS = tLoad.Seconds()

	// ---- native replay of violations, known findings and witnesses ----
	exit := 0
	var lines []string
	replayDir := filepath.Join(*verif, "replays", cfg.Property)
	os.RemoveAll(replayDir)
	if !*noReplay && (len(agg.violations) > 0 || len(agg.known) > 0 || len(agg.witnesses) > 0) {
		rr := nativeReplay(*repo, *verif, replayOverlay, &cfg, agg, replayDir)
		agg.replay = rr
	}
	confirmed := 0
	for i, v := range agg.violations {
		st := "unreplayed"
		if agg.replay != nil {
			st = agg.replay.violationStatus[i]
		}
		if strings.HasPrefix(v.v.Label, "unwind-") {
			// an unwinding assertion: the instance's loop bound is too small for its inputs - a defect of
			// the check's configuration, reported as inconclusive, never as a violation of the property
			agg.inconclusive = append(agg.inconclusive, fmt.Sprintf("unwinding assertion %q failed for %v: the stated bound does not cover the instance's inputs", v.v.Label, v.v.Params))
			continue
		}
		switch st {
		case "reproduced":
			confirmed++
			dir := filepath.Join(replayDir, fmt.Sprintf("violation-%d", i))
			lines = append(lines, fmt.Sprintf("VIOLATION property=%s replay=%s", cfg.Property, dir))
			lines = append(lines, fmt.Sprintf("  label=%s %s params=%v", v.v.Label, v.v.Msg, v.v.Params))
		default:
			agg.inconclusive = append(agg.inconclusive, fmt.Sprintf("counterexample for %q (%s) did not reproduce natively (%s): encoding or stub suspect", v.v.Label, clip(v.v.Msg, 300), st))
		}
	}
	seenKnown := map[string]bool{}
	for i, k := range agg.known {
		st := "unreplayed"
		if agg.replay != nil {
			st = agg.replay.knownStatus[i]
		}
		if seenKnown[k.v.Finding] {
			continue
		}
		if st == "reproduced" {
			seenKnown[k.v.Finding] = true
			desc := k.v.Finding
			for _, f := range findings {
				if f.ID == k.v.Finding {
					desc = f.ID + " " + f.Description
				}
			}
			lines = append(lines, fmt.Sprintf("KNOWN-FINDING: property=%s %s", cfg.Property, desc))
		} else {
			agg.inconclusive = append(agg.inconclusive, fmt.Sprintf("known finding %s: model did not reproduce natively (%s)", k.v.Finding, st))
		}
	}
	if agg.replay != nil && agg.replay.witnessMismatch > 0 {
		agg.inconclusive = append(agg.inconclusive, fmt.Sprintf("%d path witnesses disagree between engine and native run: %s", agg.replay.witnessMismatch, strings.Join(agg.replay.mismatchNotes, "; ")))
	}
	if confirmed > 0 {
		exit = 1
	} else if len(agg.inconclusive) > 0 {
		exit = 2
	}
	writeEvidence(*verif, &cfg, *tier, *seed, agg, time.Since(t0), confirmed, *repo)
	for _, l := range lines {
		fmt.Println(l)
	}
	fmt.Printf("%s %s: instances=%d paths=%d completed=%d vacuous=%d obligations=%d discharged=%d violations=%d known=%d witnesses=%d/%d inconclusive=%d solver_queries=%d solver_time=%.1fs wall=%.1fs\n",
		cfg.Property, *tier, len(insts), agg.paths, agg.completed, agg.vacuous, agg.obligations, agg.discharged, confirmed, len(seenKnown), agg.witnessOK(), len(agg.witnesses), len(agg.inconclusive), agg.solver.Queries, agg.solver.Time.Seconds(), time.Since(t0).Seconds())
	if len(agg.inconclusive) > 0 {
		fmt.Println("INCONCLUSIVE:")
		for i, m := range agg.inconclusive {
			if i >= 10 {
				fmt.Printf("  ... and %d more\n", len(agg.inconclusive)-10)
				break
			}
			fmt.Println("  " + clip(m, 1500))
		}
	}
	pprof.StopCPUProfile()
	os.Exit(exit)
}

func clip(s string, n int) string {
	if len(s) > n {
		return s[:n] + "…"
	}
	return s
}

func fatal(err error) {
	fmt.Fprintln(os.Stderr, "symgo:", err)
	os.Exit(2)
}

func matchOnly(only string, params map[string]int) bool {
	if only == "" {
		return true
	}
	for _, kv := range strings.Split(only, ",") {
		p := strings.SplitN(kv, "=", 2)
		if len(p) != 2 {
			continue
		}
		if fmt.Sprint(params[p[0]]) != p[1] {
			return false
		}
	}
	return true
}

func expand(tc *tierCfg) []map[string]int {
	// cartesian product of the grid, multiplied with every explicit case (if any)
	keys := make([]string, 0, len(tc.Grid))
	for k := range tc.Grid {
		keys = append(keys, k)
	}
	sort.Strings(keys)
	cur := []map[string]int{{}}
	if len(tc.Cases) > 0 {
		cur = nil
		for _, c := range tc.Cases {
			n := map[string]int{}
			for k, v := range c {
				n[k] = v
			}
			cur = append(cur, n)
		}
	}
	for _, k := range keys {
		var next []map[string]int
		for _, m := range cur {
			for _, v := range tc.Grid[k] {
				n := map[string]int{}
				for kk, vv := range m {
					n[kk] = vv
				}
				n[k] = v
				next = append(next, n)
			}
		}
		cur = next
	}
	return cur
}

// enumerateMapRanges lists every range-over-map instruction in knut's own code
// (the complete list of sites where hash-map iteration order can reach an output).
func enumerateMapRanges(prog *ssa.Program) (map[*ssa.Range]int, []string) {
	type site struct {
		r   *ssa.Range
		pos string
	}
	var sites []site
	for fn := range ssautil.AllFunctions(prog) {
		if fn.Pkg == nil || !strings.HasPrefix(fn.Pkg.Pkg.Path(), "github.com/sboehler/knut") {
			if fn.Origin() == nil || fn.Origin().Pkg == nil || !strings.HasPrefix(fn.Origin().Pkg.Pkg.Path(), "github.com/sboehler/knut") {
				continue
			}
		}
		for _, b := range fn.Blocks {
			for _, ins := range b.Instrs {
				r, ok := ins.(*ssa.Range)
				if !ok {
					continue
				}
				if _, isMap := r.X.Type().Underlying().(*types.Map); !isMap {
					continue
				}
				p := prog.Fset.Position(r.Pos())
				if strings.Contains(p.Filename, "zz_verif") || strings.Contains(p.Filename, "zzverif") {
					continue
				}
				sites = append(sites, site{r, fmt.Sprintf("%s:%d:%d %s", strings.TrimPrefix(p.Filename, "/repo/"), p.Line, p.Column, fn.String())})
			}
		}
	}
	sort.Slice(sites, func(i, j int) bool { return sites[i].pos < sites[j].pos })
	// generic instantiations share a source position: give them the same site index
	m := map[*ssa.Range]int{}
	var names []string
	idx := map[string]int{}
	for _, s := range sites {
		key := s.pos[:strings.Index(s.pos, " ")]
		i, ok := idx[key]
		if !ok {
			i = len(names)
			idx[key] = i
			names = append(names, s.pos)
		}
		m[s.r] = i
	}
	return m, names
}

func runInstance(prog *ssa.Program, inst instance, known map[string]bool, solverKind string, log bool, logPath string, mapSites map[*ssa.Range]int) instResult {
	tc := sym.NewTermCtx()
	timeout := inst.tier.SolverTimeoutMs
	if timeout == 0 {
		timeout = 10000
	}
	var lw *os.File
	if log {
		lw, _ = os.Create(logPath)
		defer lw.Close()
	}
	var solver *sym.Solver
	var err error
	if lw != nil {
		solver, err = sym.NewSolver(solverKind, timeout, tc, lw)
	} else {
		solver, err = sym.NewSolver(solverKind, timeout, tc, nil)
	}
	if err != nil {
		fatal(err)
	}
	defer solver.Close()
	if solver2Kind != "" {
		if m, err := sym.NewSolver(solver2Kind, timeout, tc, nil); err == nil {
			solver.Mirror = m
		}
	}
	solver.FeasTimeoutMs = inst.tier.FeasTimeoutMs
	if solver.FeasTimeoutMs == 0 {
		solver.FeasTimeoutMs = 2000
	}
	in := sym.NewInterp(prog)
	in.TC = tc
	in.Solver = solver
	in.Params = inst.params
	in.MapSites = mapSites
	if inst.tier.MaxSteps > 0 {
		in.MaxSteps = inst.tier.MaxSteps
	}
	ex := &sym.Explorer{In: in, Cfg: sym.Config{
		MaxPaths:      inst.tier.MaxPaths,
		MaxViolations: 3,
		WitnessEvery:  inst.tier.WitnessEvery,
		MaxWitnesses:  inst.tier.MaxWitnesses,
		KnownActive:   known,
	}}
	if ex.Cfg.MaxPaths == 0 {
		ex.Cfg.MaxPaths = 200000
	}
	if inst.tier.TimeBudgetS > 0 {
		ex.Cfg.Deadline = time.Now().Add(time.Duration(inst.tier.TimeBudgetS) * time.Second)
	}
	ex.Explore(inst.fn)
	mirrorMu.Lock()
	mirrorTotals.Checked += solver.MirrorStats.Checked
	mirrorTotals.Agree += solver.MirrorStats.Agree
	mirrorTotals.Disagree += solver.MirrorStats.Disagree
	mirrorTotals.Unknown += solver.MirrorStats.Unknown
	freshTotals.Runs += solver.FreshStats.Runs
	freshTotals.SatRefuted += solver.FreshStats.SatRefuted
	freshTotals.SatConfirmed += solver.FreshStats.SatConfirmed
	freshTotals.UnknownDecided += solver.FreshStats.UnknownDecided
	freshTotals.Undecided += solver.FreshStats.Undecided
	mirrorMu.Unlock()
	return instResult{inst: inst, stats: ex.Stats, solver: solver.Stats, funcs: in.SortedFuncs(), stubs: in.SortedStubs()}
}

type taggedViolation struct {
	v       sym.Violation
	harness string
}

type taggedWitness struct {
	w       sym.Witness
	harness string
}

type aggT struct {
	paths, completed, vacuous, infeasible int
	branches                              int64
	obligations, discharged, trivial      int
	violations                            []taggedViolation
	known                                 []taggedViolation
	witnesses                             []taggedWitness
	inconclusive                          []string
	solver                                sym.SolverStats
	funcs, stubs                          map[string]bool
	obligSamples                          []string
	reached                               map[string]int
	steps                                 int64
	loadS                                 float64
	replay                                *replayResult
	instances                             int
	sampleParams                          []map[string]int
	maxInstWall                           float64
	siteHits                              map[int]int
}

func (a *aggT) witnessOK() int {
	if a.replay == nil {
		return 0
	}
	return a.replay.witnessOK
}

func aggregate(rs []instResult) *aggT {
	a := &aggT{funcs: map[string]bool{}, stubs: map[string]bool{}, reached: map[string]int{}}
	seenInc := map[string]bool{}
	for _, r := range rs {
		a.instances++
		s := r.stats
		a.paths += s.Paths
		a.completed += s.Completed
		a.vacuous += s.Vacuous
		a.infeasible += s.Infeasible
		a.branches += s.Branches
		a.obligations += s.Obligations
		a.discharged += s.Discharged
		a.trivial += s.TrivialOblig
		a.steps += s.Steps
		if s.Wall.Seconds() > a.maxInstWall {
			a.maxInstWall = s.Wall.Seconds()
		}
		if site, ok := r.inst.params["site"]; ok {
			if a.siteHits == nil {
				a.siteHits = map[int]int{}
			}
			a.siteHits[site] += s.MapSiteHits
		}
		for _, v := range s.Violations {
			a.violations = append(a.violations, taggedViolation{v, r.inst.fn.Name()})
		}
		for _, v := range s.Known {
			a.known = append(a.known, taggedViolation{v, r.inst.fn.Name()})
		}
		for _, w := range s.Witnesses {
			a.witnesses = append(a.witnesses, taggedWitness{w, r.inst.fn.Name()})
		}
		for _, m := range s.Inconclusive {
			key := m
			if len(key) > 200 {
				key = key[:200]
			}
			if !seenInc[key] {
				seenInc[key] = true
				a.inconclusive = append(a.inconclusive, fmt.Sprintf("%s %v: %s", r.inst.fn.Name(), r.inst.params, m))
			}
		}
		for k, n := range s.Reached {
			a.reached[k] += n
		}
		if len(a.obligSamples) < 8 {
			a.obligSamples = append(a.obligSamples, s.ObligSamples...)
		}
		if len(a.sampleParams) < 5 {
			a.sampleParams = append(a.sampleParams, r.inst.params)
		}
		a.solver.Queries += r.solver.Queries
		a.solver.Sat += r.solver.Sat
		a.solver.Unsat += r.solver.Unsat
		a.solver.Unknown += r.solver.Unknown
		a.solver.Errors += r.solver.Errors
		a.solver.Time += r.solver.Time
		if r.solver.MaxQuery > a.solver.MaxQuery {
			a.solver.MaxQuery = r.solver.MaxQuery
		}
		for _, f := range r.funcs {
			a.funcs[f] = true
		}
		for _, f := range r.stubs {
			a.stubs[f] = true
		}
	}
	// cap violations to a manageable number (first per label+harness)
	seen := map[string]int{}
	var vs []taggedViolation
	seenInst := map[string]int{}
	for _, v := range a.violations {
		// at most 2 per instance and 8 per label+harness: counterexamples of different
		// instances differ in kind (e.g. an injected fault vs. a failure the input itself causes)
		k := v.harness + "/" + v.v.Label
		ki := k + "/" + fmt.Sprint(v.v.Params)
		if seen[k] < 8 && seenInst[ki] < 2 {
			vs = append(vs, v)
			seen[k]++
			seenInst[ki]++
		}
	}
	a.violations = vs
	seenK := map[string]int{}
	var ks []taggedViolation
	for _, v := range a.known {
		if seenK[v.v.Finding] < 3 {
			ks = append(ks, v)
		}
		seenK[v.v.Finding]++
	}
	a.known = ks
	if len(a.witnesses) > 400 {
		step := len(a.witnesses) / 400
		var ws []taggedWitness
		for i := 0; i < len(a.witnesses); i += step + 1 {
			ws = append(ws, a.witnesses[i])
		}
		a.witnesses = ws
	}
	return a
}

// ---- native replay ----

type replayCase struct {
	ID      string         `json:"id"`
	Harness string         `json:"harness"`
	Params  map[string]int `json:"params"`
	Inputs  []sym.Input    `json:"inputs"`
}

type nativeResult struct {
	ID        string            `json:"id"`
	Failed    []string          `json:"failed"`
	Known     []string          `json:"known"`
	Panic     string            `json:"panic"`
	AssumeBad bool              `json:"assume_bad"`
	Desync    string            `json:"desync"`
	Observed  map[string]string `json:"observed"`
}

type replayResult struct {
	violationStatus []string
	knownStatus     []string
	witnessOK       int
	witnessMismatch int
	mismatchNotes   []string
	log             string
}

func nativeReplay(repo, verif string, replayOverlay map[string]string, cfg *checkCfg, a *aggT, replayDir string) *replayResult {
	rr := &replayResult{}
	tmp, err := os.MkdirTemp("", "symgo-replay-")
	if err != nil {
		fatal(err)
	}
	defer os.RemoveAll(tmp)
	// group harnesses by package dir
	type pkgInfo struct {
		path  string
		funcs []string
	}
	pkgs := map[string]*pkgInfo{}
	for _, h := range cfg.Harnesses {
		i := strings.LastIndex(h.Func, ".")
		pp, fn := h.Func[:i], h.Func[i+1:]
		if pkgs[pp] == nil {
			pkgs[pp] = &pkgInfo{path: pp}
		}
		dup := false
		for _, f := range pkgs[pp].funcs {
			dup = dup || f == fn
		}
		if !dup {
			pkgs[pp].funcs = append(pkgs[pp].funcs, fn)
		}
	}
	var cases []replayCase
	for i, v := range a.violations {
		cases = append(cases, replayCase{ID: fmt.Sprintf("violation-%d", i), Harness: v.harness, Params: v.v.Params, Inputs: v.v.Inputs})
	}
	for i, v := range a.known {
		cases = append(cases, replayCase{ID: fmt.Sprintf("known-%d", i), Harness: v.harness, Params: v.v.Params, Inputs: v.v.Inputs})
	}
	for i, w := range a.witnesses {
		cases = append(cases, replayCase{ID: fmt.Sprintf("witness-%d", i), Harness: w.harness, Params: w.w.Params, Inputs: w.w.Inputs})
	}
	casesFile := filepath.Join(tmp, "cases.json")
	cb, _ := json.MarshalIndent(cases, "", " ")
	os.WriteFile(casesFile, cb, 0o644)

	ov := map[string]string{}
	for k, v := range replayOverlay {
		ov[k] = v
	}
	results := map[string]nativeResult{}
	const modPrefix = "github.com/sboehler/knut"
	for _, p := range pkgs {
		rel := strings.TrimPrefix(strings.TrimPrefix(p.path, modPrefix), "/")
		// package name from an existing harness file
		pkgName := ""
		for virt, real := range replayOverlay {
			if filepath.Dir(virt) == filepath.Join(repo, rel) && strings.HasPrefix(filepath.Base(virt), "zz_verif") {
				b, _ := os.ReadFile(real)
				for _, line := range strings.Split(string(b), "\n") {
					if strings.HasPrefix(line, "package ") {
						pkgName = strings.TrimSpace(strings.TrimPrefix(line, "package "))
						break
					}
				}
			}
		}
		var b strings.Builder
		fmt.Fprintf(&b, "package %s\n\nimport (\n\t\"testing\"\n\tzzv \"github.com/sboehler/knut/lib/zzverif\"\n)\n\nfunc TestZZVerifReplay(t *testing.T) {\n\tzzv.RunReplay(t, map[string]func(){\n", pkgName)
		for _, f := range p.funcs {
			fmt.Fprintf(&b, "\t\t%q: %s,\n", f, f)
		}
		b.WriteString("\t})\n}\n")
		tf := filepath.Join(tmp, "replay_"+strings.ReplaceAll(rel, "/", "_")+"_test.go")
		os.WriteFile(tf, []byte(b.String()), 0o644)
		ov[filepath.Join(repo, rel, "zz_verif_replay_test.go")] = tf
	}
	ovFile := filepath.Join(tmp, "overlay.json")
	ob, _ := json.Marshal(map[string]interface{}{"Replace": ov})
	os.WriteFile(ovFile, ob, 0o644)
	var logs strings.Builder
	for _, p := range pkgs {
		out := filepath.Join(tmp, "out.json")
		os.Remove(out)
		cmd := exec.Command("go", "test", "-vet=off", "-count=1", "-overlay", ovFile, "-run", "^TestZZVerifReplay$", "-timeout", "20m", p.path)
		cmd.Dir = repo
		cmd.Env = append(os.Environ(), "GOFLAGS=-mod=mod", "GOPROXY=off", "GOSUMDB=off", "GOTOOLCHAIN=local", "ZZVERIF_CASES="+casesFile, "ZZVERIF_OUT="+out, "ZZVERIF_KNOWN="+activeKnown)
		o, err := cmd.CombinedOutput()
		logs.WriteString(string(o))
		if err != nil {
			logs.WriteString("\n(go test: " + err.Error() + ")\n")
		}
		if ob, err := os.ReadFile(out); err == nil {
			var rs []nativeResult
			json.Unmarshal(ob, &rs)
			for _, r := range rs {
				results[r.ID] = r
			}
		}
	}
	rr.log = logs.String()
	status := func(id string, v sym.Violation, isKnown bool) string {
		r, ok := results[id]
		if !ok {
			return "no native result: " + clip(rr.log, 400)
		}
		if r.Desync != "" {
			return "desync: " + r.Desync
		}
		if r.AssumeBad {
			return "model violates an assumption natively"
		}
		if v.Kind == "panic" {
			if r.Panic != "" {
				return "reproduced"
			}
			return "no panic natively"
		}
		if isKnown {
			for _, k := range r.Known {
				if k == v.Label+"@"+v.Finding {
					return "reproduced"
				}
			}
			return fmt.Sprintf("not reproduced (failed=%v known=%v panic=%q)", r.Failed, r.Known, r.Panic)
		}
		for _, f := range r.Failed {
			if f == v.Label {
				return "reproduced"
			}
		}
		if r.Panic != "" {
			return "native panic instead: " + clip(r.Panic, 200)
		}
		return fmt.Sprintf("assertion holds natively (failed=%v known=%v)", r.Failed, r.Known)
	}
	persist := func(id string, v taggedViolation) {
		dir := filepath.Join(replayDir, id)
		os.MkdirAll(dir, 0o755)
		cb, _ := json.MarshalIndent([]replayCase{{ID: id, Harness: v.harness, Params: v.v.Params, Inputs: v.v.Inputs}}, "", " ")
		os.WriteFile(filepath.Join(dir, "cases.json"), cb, 0o644)
		vb, _ := json.MarshalIndent(v.v, "", " ")
		os.WriteFile(filepath.Join(dir, "violation.json"), vb, 0o644)
		if r, ok := results[id]; ok {
			nb, _ := json.MarshalIndent(r, "", " ")
			os.WriteFile(filepath.Join(dir, "native_result.json"), nb, 0o644)
		}
		os.WriteFile(filepath.Join(dir, "README.txt"), []byte(fmt.Sprintf("Replay: %s/check %s --replay %s\nThe harness %s is run natively (go test -overlay) with the inputs of cases.json.\n", verif, cfg.Property, dir, v.harness)), 0o644)
	}
	for i, v := range a.violations {
		id := fmt.Sprintf("violation-%d", i)
		st := status(id, v.v, false)
		rr.violationStatus = append(rr.violationStatus, st)
		persist(id, v)
	}
	for i, v := range a.known {
		id := fmt.Sprintf("known-%d", i)
		rr.knownStatus = append(rr.knownStatus, status(id, v.v, true))
	}
	for i, w := range a.witnesses {
		id := fmt.Sprintf("witness-%d", i)
		r, ok := results[id]
		bad := ""
		mapOrderDependent := false
		for _, in := range w.w.Inputs {
			if strings.HasPrefix(in.Name, "maporder") || strings.HasPrefix(in.Name, "sched") {
				mapOrderDependent = true
			}
		}
		switch {
		case mapOrderDependent:
			// Go's native map order cannot be steered: such witnesses are not comparable
			continue
		case !ok:
			bad = "no native result"
		case r.Desync != "":
			bad = "desync: " + r.Desync
		case r.AssumeBad:
			bad = "assumption false natively"
		case r.Panic != "":
			bad = "native panic: " + clip(r.Panic, 200)
		case len(r.Failed) > 0:
			bad = fmt.Sprintf("assertions %v fail natively on a path the engine completed", r.Failed)
		default:
			for k, ev := range w.w.Observed {
				if nv, ok := r.Observed[k]; !ok || nv != ev {
					bad = fmt.Sprintf("observe %q: engine %s native %s", k, clip(ev, 120), clip(nv, 120))
					break
				}
			}
		}
		if bad == "" {
			rr.witnessOK++
		} else {
			rr.witnessMismatch++
			if len(rr.mismatchNotes) < 5 {
				rr.mismatchNotes = append(rr.mismatchNotes, fmt.Sprintf("%s %v inputs=%s: %s", w.harness, w.w.Params, inputsBrief(w.w.Inputs), bad))
			}
		}
	}
	return rr
}

// replayStored re-runs a stored counterexample (cases.json written next to a
// VIOLATION line) natively against the current /repo. Exit 1 if it still fails.
func replayStored(repo, verif string, replayOverlay map[string]string, cfg *checkCfg, dir string) int {
	data, err := os.ReadFile(filepath.Join(dir, "cases.json"))
	if err != nil {
		fmt.Println("replay:", err)
		return 2
	}
	var cases []replayCase
	if err := json.Unmarshal(data, &cases); err != nil {
		fmt.Println("replay:", err)
		return 2
	}
	var stored sym.Violation
	if vb, err := os.ReadFile(filepath.Join(dir, "violation.json")); err == nil {
		json.Unmarshal(vb, &stored)
	}
	a := &aggT{}
	for _, c := range cases {
		v := stored
		v.Params, v.Inputs = c.Params, c.Inputs
		a.violations = append(a.violations, taggedViolation{v: v, harness: c.Harness})
	}
	tmp, _ := os.MkdirTemp("", "symgo-replayout-")
	defer os.RemoveAll(tmp)
	rr := nativeReplay(repo, verif, replayOverlay, cfg, a, tmp)
	rc := 0
	for i, st := range rr.violationStatus {
		fmt.Printf("replay %s harness=%s label=%s params=%v inputs=%s: %s\n", cfg.Property, cases[i].Harness, stored.Label, cases[i].Params, inputsBrief(cases[i].Inputs), st)
		if st == "reproduced" {
			fmt.Printf("VIOLATION property=%s replay=%s\n", cfg.Property, dir)
			rc = 1
		}
	}
	return rc
}

func inputsBrief(in []sym.Input) string {
	var parts []string
	for _, i := range in {
		parts = append(parts, i.Name+"="+i.Val)
	}
	return clip(strings.Join(parts, ","), 300)
}

// ---- evidence ----

func fileHash(p string) string {
	b, err := os.ReadFile(p)
	if err != nil {
		return ""
	}
	h := sha256.Sum256(b)
	return fmt.Sprintf("%x", h[:6])
}

var solverName = "z3"
var solver2Kind string
var activeKnown string
var globalSiteNames []string
var mirrorMu sync.Mutex
var mirrorTotals struct{ Checked, Agree, Disagree, Unknown int }
var freshTotals struct{ Runs, SatRefuted, SatConfirmed, UnknownDecided, Undecided int }

func writeEvidence(verif string, cfg *checkCfg, tier string, seed int, a *aggT, wall time.Duration, confirmed int, repo string) {
	var funcs []string
	for f := range a.funcs {
		funcs = append(funcs, f)
	}
	sort.Strings(funcs)
	var stubs []string
	for f := range a.stubs {
		stubs = append(stubs, f)
	}
	sort.Strings(stubs)
	var samples []interface{}
	for _, s := range a.obligSamples {
		samples = append(samples, map[string]interface{}{"obligation": s})
	}
	for i, w := range a.witnesses {
		if i >= 3 {
			break
		}
		samples = append(samples, map[string]interface{}{"path_witness": map[string]interface{}{"harness": w.harness, "params": w.w.Params, "inputs": inputsBrief(w.w.Inputs), "observed": w.w.Observed}})
	}
	if len(samples) == 0 {
		samples = append(samples, map[string]interface{}{"params": a.sampleParams})
	}
	var bounds []string
	for _, h := range cfg.Harnesses {
		tc := h.Quick
		if tier == "thorough" && (h.Thorough.Grid != nil || h.Thorough.Cases != nil) {
			tc = h.Thorough
		}
		gb, _ := json.Marshal(tc.Grid)
		bounds = append(bounds, fmt.Sprintf("%s: %s; grid=%s cases=%d", h.Func, h.Bounds, gb, len(tc.Cases)))
	}
	witnessOK := 0
	if a.replay != nil {
		witnessOK = a.replay.witnessOK
	}
	states := a.paths
	if states == 0 {
		states = 1
	}
	trans := a.branches
	if trans == 0 {
		trans = 1
	}
	ev := map[string]interface{}{
		"property_id": cfg.Property,
		"tier":        tier,
		"seed":        seed,
		"level":       "model_checking",
		"wall_s":      wall.Seconds(),
		"violations":  confirmed,
		"assumptions": append(append([]string{}, cfg.Assumptions...), prefixAll("outside the claim: ", cfg.Outside)...),
		"coverage": map[string]interface{}{
			"states":                        states,
			"transitions":                   trans,
			"traces_validated_against_impl": witnessOK,
			"samples":                       samples,
			"technique":                     "bounded symbolic execution of the real Go SSA (go/ssa, regenerated from /repo on this run); every assertion decided by z3 as pc ∧ ¬assertion over all values of the symbolic inputs",
			"harness_instances":             a.instances,
			"paths_explored":                a.paths,
			"paths_completed":               a.completed,
			"paths_vacuous_assumption":      a.vacuous,
			"obligations":                   a.obligations,
			"discharged":                    a.discharged,
			"obligations_trivially_true":    a.trivial,
			"assertion_sites_reached":       a.reached,
			"solver":                        map[string]interface{}{"name": solverName + " (one persistent process per harness instance, push/pop)", "queries": a.solver.Queries, "sat": a.solver.Sat, "unsat": a.solver.Unsat, "unknown": a.solver.Unknown, "errors": a.solver.Errors, "time_s": a.solver.Time.Seconds(), "max_query_s": a.solver.MaxQuery.Seconds()},
			"bounds":                        bounds,
			"functions_encoded":             funcs,
			"stubs_and_overrides_hit":       stubs,
			"interpreter_steps":             a.steps,
			"ssa_load_s":                    a.loadS,
			"inconclusive":                  a.inconclusive,
			"known_findings_observed":       knownIDs(a),
			"path_witnesses_replayed":       len(a.witnesses),
			"path_witnesses_agreeing":       witnessOK,
			"repo_tree_hash":                repoHash(repo, funcs),
			"map_range_sites":               siteReport(a),
			"fresh_process_rechecks":        map[string]interface{}{"runs": freshTotals.Runs, "incremental_sat_refuted": freshTotals.SatRefuted, "incremental_sat_confirmed": freshTotals.SatConfirmed, "incremental_unknown_decided": freshTotals.UnknownDecided, "undecided": freshTotals.Undecided},
			"second_solver":                 map[string]interface{}{"name": solver2Kind, "obligations_rechecked": mirrorTotals.Checked, "agree": mirrorTotals.Agree, "disagree": mirrorTotals.Disagree, "undecided": mirrorTotals.Unknown},
		},
	}
	os.MkdirAll(filepath.Join(verif, "evidence"), 0o755)
	b, _ := json.MarshalIndent(ev, "", " ")
	os.WriteFile(filepath.Join(verif, "evidence", cfg.Property+".json"), b, 0o644)
}

// siteReport lists every range-over-map site of knut's code with the number of
// executions whose iteration order was made nondeterministic in this run.
func siteReport(a *aggT) []map[string]interface{} {
	if a.siteHits == nil {
		return nil
	}
	var out []map[string]interface{}
	for i, n := range globalSiteNames {
		out = append(out, map[string]interface{}{"site": i, "where": n, "permuted_executions": a.siteHits[i]})
	}
	return out
}

func prefixAll(p string, ss []string) []string {
	var out []string
	for _, s := range ss {
		out = append(out, p+s)
	}
	return out
}

func knownIDs(a *aggT) []string {
	m := map[string]bool{}
	for _, k := range a.known {
		m[k.v.Finding] = true
	}
	var out []string
	for k := range m {
		out = append(out, k)
	}
	sort.Strings(out)
	return out
}

func repoHash(repo string, funcs []string) string {
	cmd := exec.Command("git", "-C", repo, "rev-parse", "HEAD")
	o, _ := cmd.Output()
	cmd2 := exec.Command("git", "-C", repo, "status", "--porcelain")
	o2, _ := cmd2.Output()
	st := "clean"
	if len(strings.TrimSpace(string(o2))) > 0 {
		st = "dirty"
	}
	return strings.TrimSpace(string(o)) + " (" + st + ")"
}
