#!/bin/sh
# builds the symbolic executor from files on disk only (module cache), offline
set -e
cd "$(dirname "$0")"
export GOFLAGS=-mod=mod GOPROXY=off GOSUMDB=off GOTOOLCHAIN=local
mkdir -p bin evidence
(cd engine && go build -o ../bin/symgo ./cmd/symgo)
# trusted-base self tests: calendar model vs real time package (all days 0001..9999),
# decimal SMT definitions vs shopspring/decimal evaluated by z3
(cd engine && go test ./sym -run TestStub -count=1)
echo setup ok
