#!/bin/sh
# builds the symbolic executor from files on disk only (module cache), offline
set -e
cd "$(dirname "$0")"
export GOFLAGS=-mod=mod GOPROXY=off GOSUMDB=off GOTOOLCHAIN=local
mkdir -p bin evidence
(cd engine && go build -o ../bin/symgo ./cmd/symgo)
echo setup ok
