#!/bin/sh
# tools_mutcheck.sh <property> <patch.diff> [tier]: apply a seeded change to /repo, run the check, undo.
id="$1"; patch="$2"; tier="${3:-quick}"
git -C /repo apply "$patch" || { echo "patch does not apply"; exit 3; }
/verif/check "$id" "$tier" > /tmp/mutcheck.$$ 2>&1; rc=$?
git -C /repo checkout -- . 
grep -E "^(VIOLATION|KNOWN-FINDING|C[0-9]+ |INCONCLUSIVE|  )" /tmp/mutcheck.$$ | head -${LINES_MAX:-12}
rm -f /tmp/mutcheck.$$
echo "exit=$rc"
