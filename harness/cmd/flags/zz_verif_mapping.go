package flags

import (
	"github.com/sboehler/knut/lib/model/account"

	v "github.com/sboehler/knut/lib/zzverif"
)

var zzMapNames = []string{"Assets:A", "Expenses:Y:Z", "Liabilities:L:M:N:O"}

// VerifMappingFlag: C14 for the values of -m <level>[:<suffix>][,<regex>]. Whatever
// integers the flag text holds (signs and digits symbolic), the flag either
// rejects the text with an error or the mapping it yields can be applied to
// every account without a panic.
func VerifMappingFlag() {
	sign := []string{"", "-", "+"}
	text := sign[v.Choice("lsign", 3)] + v.Digits("level", v.Param("ldigits"))
	if v.Choice("hasSuffix", 2) == 1 {
		text += ":" + sign[v.Choice("ssign", 3)] + v.Digits("suffix", v.Param("sdigits"))
	}
	text += []string{"", ",Assets", ",^Expenses:Y"}[v.Choice("regex", 3)]
	var f MappingFlag
	var err error
	panicked, _ := v.Try(func() { err = f.Set(text) })
	v.Assert(!panicked, "flag-parsing-does-not-panic")
	v.Observe("rejected", err != nil)
	if panicked || err != nil {
		return
	}
	reg := account.NewRegistry()
	m := account.Shorten(reg, f.Value())
	for _, name := range zzMapNames {
		a := reg.MustGet(name)
		p, _ := v.Try(func() { m(a) })
		v.Assert(!p, "no-panic")
	}
}
