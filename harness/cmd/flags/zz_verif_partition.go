package flags

import (
	"time"

	"github.com/sboehler/knut/lib/common/date"

	v "github.com/sboehler/knut/lib/zzverif"
)

// VerifMultiperiod: C11 at the flag level. The periods produced for
// --from/--to (either may be absent) clipped to the journal's own period cover
// exactly the intersection of the two; an empty intersection yields no period
// (for `once`: the single, empty window).
func VerifMultiperiod() {
	iv := date.Interval(v.Param("interval"))
	lo := v.Param("anchor")
	hi := lo + v.Param("span")
	var mp Multiperiod
	from, to := time.Time{}, date.Date(2999, 12, 31) // absent --from is the zero time; absent --to defaults to today (a late date here)
	if v.Choice("from", 2) == 1 {
		from = v.Day("from", lo, hi)
	}
	if v.Choice("to", 2) == 1 {
		to = v.Day("to", lo, hi)
	}
	mp.period.start, mp.period.end = DateFlag(from), DateFlag(to)
	mp.interval.def = date.Once
	if iv != date.Once {
		mp.interval.flags[iv] = true
	}
	jmin, jmax := v.Day("jmin", lo, hi), v.Day("jmax", lo, hi)
	v.Assume(!jmax.Before(jmin)) // a journal with at least one transaction
	ws, we := from, to
	if jmin.After(ws) {
		ws = jmin
	}
	if jmax.Before(we) {
		we = jmax
	}
	v.Assume(we.Before(ws.AddDate(0, 0, v.Param("maxdays")))) // stated bound on the window length
	part := mp.Partition(date.Period{Start: jmin, End: jmax})
	ss, es := part.StartDates(), part.EndDates()
	v.Assert(len(ss) <= v.Param("K"), "unwind-K")
	if we.Before(ws) {
		if iv == date.Once {
			v.Assert(len(ss) == 1 && ss[0].Equal(ws) && es[0].Equal(we), "once-is-the-window")
		} else {
			v.Assert(len(ss) == 0, "empty-window-has-no-periods")
		}
		return
	}
	v.Assert(len(ss) >= 1, "non-empty-window-has-periods")
	if len(ss) >= 1 {
		v.Assert(ss[0].Equal(ws), "periods-start-at-window-start")
		v.Assert(es[len(es)-1].Equal(we), "periods-end-at-window-end")
	}
	v.Observe("starts", ss)
	v.Observe("ends", es)
}
