package flags

import "github.com/sboehler/knut/lib/common/date"

// ZZSet sets the (unexported) fields of Multiperiod the way the command line
// flags --from/--to/--last/--days...--years do (through the real Set methods).
func (mp *Multiperiod) ZZSet(from, to string, last int, iv date.Interval, ivSet bool) error {
	if from != "" {
		if err := mp.period.start.Set(from); err != nil {
			return err
		}
	}
	if to != "" {
		if err := mp.period.end.Set(to); err != nil {
			return err
		}
	}
	mp.last = last
	mp.interval.def = date.Once
	if ivSet {
		mp.interval.flags[iv] = true
	}
	return nil
}

// ZZSetInterval selects one of --days/--weeks/... (0 = none).
func (mp *Multiperiod) ZZSetInterval(iv int) {
	mp.interval.def = date.Once
	mp.interval.flags = [6]bool{}
	if iv != 0 {
		mp.interval.flags[iv] = true
	}
}
