package commands

import (
	"context"
	"strings"

	"github.com/sboehler/knut/lib/syntax"
	"github.com/sboehler/knut/lib/syntax/bayes"
	"github.com/spf13/cobra"

	v "github.com/sboehler/knut/lib/zzverif"
)

var zzFileContents = []string{
	0: "2021-01-01 open   Assets:Bank\n\n# c\n2021-01-02 \"x\"\nAssets:Bank   Expenses:Food   1.50 CHF\n", // parseable, not yet formatted
	1: "2021-01-01 open Assets:Bank\n2021-01-02 oops\n",                                                          // does not parse
	2: "2021-01-05 close    Assets:Bank",                                                                             // parseable, tiny
}

func zzFormatted(text string) (string, bool) {
	f, err := zzParseText(text, "x")
	if err != nil {
		return "", false
	}
	var sb strings.Builder
	if err := syntax.FormatFile(&sb, f); err != nil {
		return "", false
	}
	return sb.String(), true
}

// zzIterMap replaces conc/iter.Map (goroutines) by a sequential map in a chosen order.
func zzIterMap(input []string, f func(*string) error) []error {
	res := make([]error, len(input))
	if len(input) == 2 && zzOrder == 1 {
		res[1] = f(&input[1])
		res[0] = f(&input[0])
		return res
	}
	for i := range input {
		res[i] = f(&input[i])
	}
	return res
}

var zzOrder int

// VerifAtomicFormat: C18 for `knut format`. Fault plan: the op-th file-system
// operation fails (a write first accepts k bytes) or is a crash point.
func VerifAtomicFormat() {
	nfiles := v.Param("files")
	names := []string{"a.knut", "b.knut"}[:nfiles]
	long := v.Param("longname") == 1
	if long {
		// a name of 253 bytes: the temporary sibling atomic.WriteFile creates cannot be named,
		// so writing this (and only this) file fails
		names[0] = strings.Repeat("a", 248) + ".knut"
	}
	var olds, news []string
	var parses []bool
	var paths []string
	for i, n := range names {
		c := zzFileContents[v.Param([]string{"c0", "c1"}[i])]
		v.FSWrite(n, c)
		if i == 0 && v.Param("symlink") == 1 {
			v.FSSymlink(n)
		}
		olds = append(olds, c)
		nw, ok := zzFormatted(c)
		news = append(news, nw)
		parses = append(parses, ok)
		paths = append(paths, v.FSPath(n))
	}
	zzOrder = 0
	if nfiles == 2 {
		zzOrder = v.Choice("order", 2)
	}
	op := v.Choice("op", v.Param("maxops")+1) - 1
	k := 0
	crash := false
	if op >= 0 {
		k = v.Int("k", 0, 200)
		crash = v.Choice("crash", 2) == 1
	}
	if v.Symbolic() {
		v.Override("github.com/sourcegraph/conc/iter.Map", zzIterMap)
	}
	cmd := &cobra.Command{}
	cmd.SetContext(context.Background())
	var err error
	v.FSArm(op, k, crash)
	var fr formatRunner
	crashed, _ := v.Try(func() { err = fr.execute(cmd, paths) })
	fired := op >= 0 && op < v.FSOps()
	v.FSArm(-1, 0, false)
	for i, n := range names {
		got, exists := v.FSRead(n)
		v.Assert(exists, "file-still-exists")
		v.Assert(got == olds[i] || (parses[i] && got == news[i]), "complete-old-or-complete-new-contents")
		if !parses[i] {
			v.Assert(got == olds[i], "unparseable-file-is-bit-identical")
			if v.Symbolic() {
				v.Assert(v.FSWrites(n) == 0, "unparseable-file-is-never-opened-for-writing")
			}
		}
		if !fired && !crashed {
			if parses[i] && !(long && i == 0) {
				v.Assert(got == news[i], "without-a-fault-every-parseable-file-is-formatted")
			}
		}
	}
	if !fired && !crashed {
		allParse := true
		for _, p := range parses {
			allParse = allParse && p
		}
		if long && parses[0] {
			v.Assert(err != nil, "failed-write-is-reported")
		} else {
			v.Assert((err == nil) == allParse, "error-iff-some-file-does-not-parse")
		}
		v.Assert(v.FSOthers() == nfiles || !v.Symbolic(), "no-stray-temporary-files")
	}
	v.Observe("fired", fired)
}

// zzInferFS runs inferRunner.execute with the target on the (modelled / scratch) file system.
func zzInferFS(training, targetName string, inplace bool) (string, error) {
	var out strings.Builder
	cmd := &cobra.Command{}
	cmd.SetOut(&out)
	cmd.SetErr(&out)
	cmd.SetContext(context.Background())
	r := inferRunner{account: zzTBD, inplace: inplace}
	if v.Symbolic() {
		r.trainingFile = "training.knut"
		v.Override("(github.com/sboehler/knut/cmd/commands.inferRunner).train", func(_ inferRunner, ctx context.Context, file string, account string) (*bayes.Model, error) {
			model := bayes.NewModel(account)
			f, err := zzParseText(training, file)
			if err != nil {
				return nil, err
			}
			for _, d := range f.Directives {
				if t, ok := d.Directive.(syntax.Transaction); ok {
					model.Update(&t)
				}
			}
			return model, nil
		})
	} else {
		v.FSWrite("training.knut", training)
		r.trainingFile = v.FSPath("training.knut")
	}
	err := r.execute(cmd, []string{v.FSPath(targetName)})
	return out.String(), err
}

// VerifAtomicInfer: C18 for `knut infer --inplace` (and C15: the in-place result
// is the same text the command prints without --inplace).
func VerifAtomicInfer() {
	tr := zzTrainings[v.Param("training")]
	old := zzTargets[v.Param("target")]
	v.FSWrite("t.knut", old)
	if v.Param("symlink") == 1 {
		v.FSSymlink("t.knut") // the journal is named through a symbolic link
	}
	want, werr := zzInferFS(tr.text, "t.knut", false)
	v.Assume(werr == nil)
	got0, _ := v.FSRead("t.knut")
	v.Assert(got0 == old, "without-inplace-the-file-is-untouched")
	op := v.Choice("op", v.Param("maxops")+1) - 1
	k := 0
	crash := false
	if op >= 0 {
		k = v.Int("k", 0, 300)
		crash = v.Choice("crash", 2) == 1
	}
	var err error
	v.FSArm(op, k, crash)
	crashed, _ := v.Try(func() { _, err = zzInferFS(tr.text, "t.knut", true) })
	fired := op >= 0 && op < v.FSOps()
	v.FSArm(-1, 0, false)
	got, exists := v.FSRead("t.knut")
	v.Assert(exists, "file-still-exists")
	v.Assert(got == old || got == want, "complete-old-or-complete-new-contents")
	if !fired && !crashed {
		v.Assert(err == nil && got == want, "inplace-result-equals-printed-result")
	}
}
