package commands

import (
	"context"
	"os"
	"strings"

	"github.com/sboehler/knut/lib/journal"
	"github.com/sboehler/knut/lib/model"
	"github.com/sboehler/knut/lib/syntax/parser"
	"github.com/spf13/cobra"

	v "github.com/sboehler/knut/lib/zzverif"
)

// zzLoadInto parses text with the real parser and builds the journal through the
// real model constructors (the sequential core of the loader).
func zzLoadInto(reg *model.Registry, text string) (*journal.Builder, error) {
	p := parser.New(text, "journal.knut")
	if err := p.Advance(); err != nil {
		return nil, err
	}
	f, err := p.ParseFile()
	if err != nil {
		return nil, err
	}
	b := journal.New()
	for _, d := range f.Directives {
		ms, err := model.ParseDirective(reg, d)
		if err != nil {
			return nil, err
		}
		for _, m := range ms {
			if err := b.Add(m); err != nil {
				return nil, err
			}
		}
	}
	return b, nil
}

// zzRunText runs a command on a journal given as text. Symbolically FromPath is
// replaced by zzLoadInto; natively the text is written to a file and loaded by
// the real loader.
func zzRunText(text string, exec func(cmd *cobra.Command, args []string) error) (string, error) {
	var out strings.Builder
	cmd := &cobra.Command{}
	cmd.SetOut(&out)
	cmd.SetErr(&out)
	cmd.SetContext(context.Background())
	if v.Symbolic() {
		v.Override("github.com/sboehler/knut/lib/journal.FromPath", func(ctx context.Context, reg *model.Registry, path string) (*journal.Builder, error) {
			return zzLoadInto(reg, text)
		})
		v.Override("github.com/sboehler/knut/lib/common/cpr.Seq", zzSeq)
		err := exec(cmd, []string{"journal.knut"})
		return out.String(), err
	}
	f, err := os.CreateTemp("", "zzverif-*.knut")
	if err != nil {
		panic(err)
	}
	defer os.Remove(f.Name())
	f.WriteString(text)
	f.Close()
	err = exec(cmd, []string{f.Name()})
	return out.String(), err
}

const zzOpens = `2020-01-01 open Assets:Bank
2020-01-01 open Assets:Bär
2020-01-01 open Assets:Accrued
2020-01-01 open Expenses:Food
2020-01-01 open Equity:Equity
2020-01-01 open Income:Salary

`

var zzAmounts = []string{"100", "-3.5", "0", "0.10", "1.50", "12345678.12345678", "-0"}

// VerifPrintRoundTrip: C09.
func VerifPrintRoundTrip() {
	tmpl := v.Param("tmpl")
	k := v.Param("k")
	zzSchedule = 0
	text := zzOpens
	f4 := false
	perf := -1
	switch tmpl {
	case 0: // amounts (negative, zero, trailing zeros, many digits), symbolic description, zero booking + assertion of 0
		a1 := zzAmounts[v.Choice("a1", len(zzAmounts))]
		a2 := zzAmounts[v.Choice("a2", len(zzAmounts))]
		text += "2020-01-05 \"d" + v.Bytes("desc", k) + "\"\nEquity:Equity Assets:Bank " + a1 + " CHF\n\n"
		text += "2020-01-06 \"x\"\nAssets:Bank Expenses:Food " + a2 + " CHF\nEquity:Equity Assets:Bär 5 USD\nAssets:Bank Assets:Bär 0 EUR\n\n"
		text += "2020-01-06 price USD 0.95 CHF\n2020-01-06 price USD 0.9 CHF\n2020-01-06 price EUR 1.1 CHF\n\n" // same pair twice on one day: the later one counts
		text += "2020-01-07 balance Assets:Bär 5 USD\n2020-01-07 balance Assets:Bär 0 EUR\n"
	case 1: // annotations and accruals
		perf = v.Choice("perf", 3)
		switch perf {
		case 0:
			text += "@performance(USD,CHF)\n"
		case 1:
			text += "@performance()\n"
		}
		if v.Choice("accrue", 2) == 1 {
			text += "@accrue monthly 2020-01-01 2020-03-31 Assets:Accrued\n"
		}
		text += "2020-01-05 \"rent" + v.Bytes("desc", k) + "\"\nAssets:Bank Expenses:Food 300.05 CHF\nIncome:Salary Assets:Bank 1000 CHF\n\n"
		text += "2020-02-01 \"same day a\"\nAssets:Bank Expenses:Food 1 CHF\n\n2020-02-01 \"same day a\"\nAssets:Bank Expenses:Food 1 CHF\nAssets:Bank Expenses:Food 2 CHF\n"
	case 2: // multi-balance assertions, same-day assertions and closes
		text += "2020-01-05 \"d\"\nEquity:Equity Assets:Bank 100 CHF\nEquity:Equity Assets:Bär 5 USD\n\n"
		text += "2020-01-07 balance\nAssets:Bank 100 CHF\nAssets:Bär 5 USD\n\n"
		switch v.Choice("more", 3) {
		case 1:
			text += "2020-01-07 balance Assets:Bank 100 CHF\n"
			f4 = true // a multi-balance assertion that is not the day's last assertion
		case 2:
			text = strings.Replace(text, "2020-01-07 balance\n", "2020-01-07 balance Assets:Bank 100 CHF\n2020-01-07 balance\n", 1)
		}
		if v.Choice("close", 2) == 1 {
			text += "2020-01-07 close Income:Salary\n"
		}
	}
	var pr printRunner
	t1, err := zzRunText(text, func(cmd *cobra.Command, args []string) error { return pr.execute(cmd, args) })
	v.Assume(err == nil) // accepted journals (the templates are valid unless the symbolic bytes break the syntax)
	var pr2 printRunner
	t2, err2 := zzRunText(t1, func(cmd *cobra.Command, args []string) error { return pr2.execute(cmd, args) })
	v.AssertExcept(err2 == nil, "printed-journal-is-accepted", "C09-F4", f4)
	if err2 != nil {
		return
	}
	v.Assert(t2 == t1, "printing-again-reproduces-the-output")
	// annotations are part of the journal: a @performance annotation (also an empty one) survives printing
	switch perf {
	case 0:
		v.Assert(strings.Contains(t1, "@performance(USD,CHF)\n"), "performance-annotation-is-printed")
	case 1:
		v.Assert(strings.Contains(t1, "@performance()\n"), "performance-annotation-is-printed")
	case 2:
		v.Assert(!strings.Contains(t1, "@performance("), "no-annotation-invented")
	}
	// reports from the original and from the printed journal agree
	for _, val := range []int{0, 1} {
		var r1, r2 balanceRunner
		for _, r := range []*balanceRunner{&r1, &r2} {
			if val == 1 {
				r.valuation.Set("CHF")
			}
			r.Multiperiod.ZZSet("", "2999-12-31", 0, 3, true)
			r.close = true
			r.sortAlphabetically = true
			r.csv = !v.Symbolic()
		}
		o1, e1 := zzReportText(&r1, text)
		o2, e2 := zzReportText(&r2, t1)
		v.Assert((e1 == nil) == (e2 == nil), "report-verdicts-agree")
		if e1 != nil || e2 != nil {
			continue
		}
		v.Assert(len(o1) == len(o2), "reports-have-the-same-rows")
		if len(o1) != len(o2) {
			continue
		}
		for i := range o1 {
			v.Assert(len(o1[i]) == len(o2[i]), "reports-have-the-same-columns")
			if len(o1[i]) != len(o2[i]) {
				continue
			}
			for j := range o1[i] {
				a, b := o1[i][j], o2[i][j]
				v.Assert(a.text == b.text && a.isNum == b.isNum && (!a.isNum || a.num.Equal(b.num)), "report-cells-agree")
			}
		}
	}
	v.Observe("t1", t1)
}
