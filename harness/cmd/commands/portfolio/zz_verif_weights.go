package portfolio

import (
	"context"
	"os"
	"strings"

	"github.com/sboehler/knut/lib/journal"
	"github.com/sboehler/knut/lib/model"
	"github.com/sboehler/knut/lib/syntax/parser"
	"github.com/spf13/cobra"

	v "github.com/sboehler/knut/lib/zzverif"
)

func zzSeq(ctx context.Context, ts []*journal.Day, fs ...func(*journal.Day) error) ([]*journal.Day, error) {
	for _, t := range ts {
		for _, f := range fs {
			if err := f(t); err != nil {
				return nil, err
			}
		}
	}
	return ts, nil
}

func zzLoad(reg *model.Registry, text string) (*journal.Builder, error) {
	p := parser.New(text, "journal.knut")
	if err := p.Advance(); err != nil {
		return nil, err
	}
	f, err := p.ParseFile()
	if err != nil {
		return nil, err
	}
	b := journal.New()
	for _, d := range f.Directives {
		ms, err := model.ParseDirective(reg, d)
		if err != nil {
			return nil, err
		}
		for _, m := range ms {
			if err := b.Add(m); err != nil {
				return nil, err
			}
		}
	}
	return b, nil
}

var zzWeightJournals = []string{
	// two commodities of equal value, a third of a different value
	0: "2020-01-01 open Assets:A\n2020-01-01 open Equity:Equity\n2020-01-01 price AAA 2 CHF\n2020-01-01 price BBB 2 CHF\n2020-01-01 price CCC 5 CHF\n\n" +
		"2020-01-02 \"buy\"\nEquity:Equity Assets:A 10 AAA\nEquity:Equity Assets:A 10 BBB\nEquity:Equity Assets:A 1 CCC\n",
	// three month ends with changing prices (weights summed over several dates)
	2: "2020-01-01 open Assets:A\n2020-01-01 open Equity:Equity\n2020-01-01 price AAA 2 CHF\n2020-01-01 price BBB 3 CHF\n2020-02-10 price AAA 2.5 CHF\n2020-03-10 price BBB 2.25 CHF\n\n" +
		"2020-01-02 \"buy\"\nEquity:Equity Assets:A 10 AAA\nEquity:Equity Assets:A 7 BBB\n\n2020-02-15 \"buy\"\nEquity:Equity Assets:A 3 AAA\n\n2020-03-20 \"buy\"\nEquity:Equity Assets:A 1 BBB\n",
	// two commodities with equal, non-dyadic weights (0.1, 0.2, 0.3) on three dates: their totals are
	// mathematically equal, and equal as floats only if they are summed in the same order
	3: "2020-01-01 open Assets:A\n2020-01-01 open Equity:Equity\n2020-01-01 price AAA 1 CHF\n2020-01-01 price BBB 1 CHF\n2020-01-01 price CCC 1 CHF\n\n" +
		"2020-01-02 \"d1\"\nEquity:Equity Assets:A 1 AAA\nEquity:Equity Assets:A 1 BBB\nEquity:Equity Assets:A 8 CCC\n\n" +
		"2020-01-03 \"d2\"\nEquity:Equity Assets:A 1 AAA\nEquity:Equity Assets:A 1 BBB\nAssets:A Equity:Equity 2 CCC\n\n" +
		"2020-01-04 \"d3\"\nEquity:Equity Assets:A 1 AAA\nEquity:Equity Assets:A 1 BBB\nAssets:A Equity:Equity 2 CCC\n",
	// two commodities of equal value, each spread over three accounts in non-dyadic amounts
	4: "2020-01-01 open Assets:A\n2020-01-01 open Assets:B\n2020-01-01 open Assets:C\n2020-01-01 open Equity:Equity\n2020-01-01 price AAA 1 CHF\n2020-01-01 price BBB 1 CHF\n2020-01-01 price CCC 1 CHF\n\n" +
		"2020-01-02 \"buy\"\nEquity:Equity Assets:A 9.51 AAA\nEquity:Equity Assets:B 8.35 AAA\nEquity:Equity Assets:C 8.8 AAA\nEquity:Equity Assets:C 9.51 BBB\nEquity:Equity Assets:A 8.35 BBB\nEquity:Equity Assets:B 8.8 BBB\nEquity:Equity Assets:A 1.07 CCC\nEquity:Equity Assets:B 1.93 CCC\n",
	// one commodity spread over three accounts in non-dyadic amounts, another of the same total in one account
	5: "2020-01-01 open Assets:A\n2020-01-01 open Assets:B\n2020-01-01 open Assets:C\n2020-01-01 open Equity:Equity\n2020-01-01 price AAA 1 CHF\n2020-01-01 price BBB 1 CHF\n\n" +
		"2020-01-02 \"buy\"\nEquity:Equity Assets:A 9.51 AAA\nEquity:Equity Assets:B 8.35 AAA\nEquity:Equity Assets:C 8.8 AAA\nEquity:Equity Assets:A 26.66 BBB\n",
	// all values different
	1: "2020-01-01 open Assets:A\n2020-01-01 open Equity:Equity\n2020-01-01 price AAA 2 CHF\n2020-01-01 price BBB 3 CHF\n\n" +
		"2020-01-02 \"buy\"\nEquity:Equity Assets:A 10 AAA\nEquity:Equity Assets:A 10 BBB\n",
}

// VerifWeightsDeterministic: C06 kernel for `portfolio weights`. Concrete journal
// (the command computes in float64); one range-over-map site at a time iterates
// in every order; two runs per path must print the same table.
func VerifWeightsDeterministic() {
	site := v.Param("site")
	budget := v.Param("budget")
	text := zzWeightJournals[v.Param("journal")]
	alpha := v.Param("alpha") == 1
	v.MapOrderMax(v.Param("maxentries"))
	run := func() (string, error) {
		v.MapOrderSite(site, budget)
		defer v.MapOrderSite(-1, 0)
		var out strings.Builder
		cmd := &cobra.Command{}
		cmd.SetOut(&out)
		cmd.SetErr(&out)
		cmd.SetContext(context.Background())
		r := weightsRunner{csv: true, sortAlphabetically: alpha}
		r.valuation.Set("CHF")
		if v.Param("journal") == 2 {
			r.Multiperiod.ZZSet("", "2999-12-31", 0, 3, true) // --months
		} else if v.Param("journal") == 3 {
			r.Multiperiod.ZZSet("", "2999-12-31", 0, 1, true) // --days
		} else {
			r.Multiperiod.ZZSet("", "2999-12-31", 0, 0, false)
		}
		if v.Symbolic() {
			v.Override("github.com/sboehler/knut/lib/journal.FromPath", func(ctx context.Context, reg *model.Registry, path string) (*journal.Builder, error) {
				return zzLoad(reg, text)
			})
			v.Override("github.com/sboehler/knut/lib/common/cpr.Seq", zzSeq)
			err := r.execute(cmd, []string{"journal.knut"})
			return out.String(), err
		}
		f, err := os.CreateTemp("", "zzverif-*.knut")
		if err != nil {
			panic(err)
		}
		defer os.Remove(f.Name())
		f.WriteString(text)
		f.Close()
		err = r.execute(cmd, []string{f.Name()})
		return out.String(), err
	}
	o1, e1 := run()
	o2, e2 := run()
	v.Assert(e1 == nil && e2 == nil, "weights-report-proceeds")
	if e1 != nil || e2 != nil {
		return
	}
	v.Assert(o1 == o2, "same-output-on-every-run")
	v.Observe("lines", strings.Count(o1, "\n"))
}
