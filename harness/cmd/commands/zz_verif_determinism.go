package commands

import (
	"github.com/sboehler/knut/lib/model"
	"github.com/spf13/cobra"

	v "github.com/sboehler/knut/lib/zzverif"
)

// VerifDeterminism: C06 kernel. One range-over-map site of knut's code at a time
// iterates in every order (first executions); the command is run twice on the same
// journal and must produce the same output.
func VerifDeterminism() {
	site := v.Param("site")
	budget := v.Param("budget")
	sh := zzShapes[v.Param("shape")]
	if v.Param("comms") == 1 {
		// commodity names that differ only in case
		old := zzComms
		zzComms = []string{"V", "Ab", "AB"}
		defer func() { zzComms = old }()
	}
	mode := 1
	if sh.cyclic {
		mode = 0 // concrete prices (products of symbolic prices along alternative paths are not decided in time)
	}
	in := zzMakeInputs(sh, mode, 2) // the subject is iteration order
	dirs := func(reg *model.Registry) []model.Directive { return zzShapeDirectives(reg, sh, in, nil) }
	zzSchedule = 0
	kind := v.Param("cmd")
	weighted := false
	v.MapOrderMax(v.Param("maxentries"))
	run := func() (string, [][]zzCell, error) {
		v.MapOrderSite(site, budget)
		defer v.MapOrderSite(-1, 0)
		switch kind {
		case 0, 1, 2: // balance: unvalued weighted / valued weighted / valued alphabetical
			var r balanceRunner
			if kind >= 1 {
				r.valuation.Set("V")
			}
			r.sortAlphabetically = kind == 2
			weighted = kind != 2
			r.close = true
			r.Multiperiod.ZZSet("", "2999-12-31", 0, 3, true)
			rows, err := zzReportDirs(&r, dirs)
			return "", rows, err
		case 3:
			var r printRunner
			o, err := zzRunDirs(dirs, func(cmd *cobra.Command, args []string) error { return r.execute(cmd, args) })
			return o, nil, err
		case 5: // check --write prints the complete set of assertions to the process's stdout
			r := checkRunner{write: true}
			var err error
			o := v.CaptureStdout(func() {
				_, err = zzRunDirs(dirs, func(cmd *cobra.Command, args []string) error { return r.execute(cmd, args) })
			})
			return o, nil, err
		case 4:
			var r transcodeRunner
			r.valuation.Set("V")
			o, err := zzRunDirs(dirs, func(cmd *cobra.Command, args []string) error { return r.execute(cmd, args) })
			return o, nil, err
		}
		return "", nil, nil
	}
	o1, t1, e1 := run()
	o2, t2, e2 := run()
	v.Assert((e1 == nil) == (e2 == nil), "same-exit-status")
	if e1 != nil || e2 != nil {
		return
	}
	if sh.cyclic {
		v.AssertExcept(o1 == o2 && zzSameRows(t1, t2), "same-output-on-every-run", "C06-F18", true)
		return
	}
	v.AssertExcept(o1 == o2 && zzSameRows(t1, t2), "same-output-on-every-run", "C06-F2", weighted)
}
