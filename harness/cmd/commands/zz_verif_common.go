package commands

import (
	"context"
	"os"
	"strings"
	"time"

	"github.com/sboehler/knut/lib/journal"
	"github.com/sboehler/knut/lib/journal/printer"
	"github.com/sboehler/knut/lib/model"
	"github.com/spf13/cobra"

	v "github.com/sboehler/knut/lib/zzverif"
)

// zzSeq replaces cpr.Seq (goroutine pipeline) under the symbolic executor by two
// extreme sequential schedules of the same stage functions: day-major (each day
// through all stages) and stage-major (all days through stage 1, then stage 2, ...).
func zzSeq(ctx context.Context, ts []*journal.Day, fs ...func(*journal.Day) error) ([]*journal.Day, error) {
	if zzSchedule == 0 {
		for _, t := range ts {
			for _, f := range fs {
				if err := f(t); err != nil {
					return nil, err
				}
			}
		}
		return ts, nil
	}
	for _, f := range fs {
		for _, t := range ts {
			if err := f(t); err != nil {
				return nil, err
			}
		}
	}
	return ts, nil
}

var zzSchedule int

// zzRun runs a command's execute function on the journal produced by build.
// Symbolically: journal.FromPath is overridden to return the builder (built with
// the registry execute created) and cpr.Seq by zzSeq. Natively (replay): the
// journal is printed with the real printer into a temporary file and loaded by
// the real loader.
func zzRun(build func(reg *model.Registry) *journal.Builder, exec func(cmd *cobra.Command, args []string) error) (string, error) {
	var out strings.Builder
	cmd := &cobra.Command{}
	cmd.SetOut(&out)
	cmd.SetErr(&out)
	cmd.SetContext(context.Background())
	if v.Symbolic() {
		v.Override("github.com/sboehler/knut/lib/journal.FromPath", func(ctx context.Context, reg *model.Registry, path string) (*journal.Builder, error) {
			return build(reg), nil
		})
		v.Override("github.com/sboehler/knut/lib/common/cpr.Seq", zzSeq)
		err := exec(cmd, []string{"journal.knut"})
		return out.String(), err
	}
	f, err := os.CreateTemp("", "zzverif-*.knut")
	if err != nil {
		panic(err)
	}
	defer os.Remove(f.Name())
	b := build(zzNewRegistry())
	if err := journal.Print(f, b.Build()); err != nil {
		panic(err)
	}
	f.Close()
	err = exec(cmd, []string{f.Name()})
	return out.String(), err
}

// zzRunDirs is zzRun for an ordered list of directives: natively every directive
// is printed on its own, in the given order, so that the real loader sees the same
// arrival order.
func zzRunDirs(dirs func(reg *model.Registry) []model.Directive, exec func(cmd *cobra.Command, args []string) error) (string, error) {
	if v.Symbolic() {
		return zzRun(func(reg *model.Registry) *journal.Builder {
			b := journal.New()
			for _, d := range dirs(reg) {
				b.Add(d)
			}
			return b
		}, exec)
	}
	var out strings.Builder
	cmd := &cobra.Command{}
	cmd.SetOut(&out)
	cmd.SetErr(&out)
	cmd.SetContext(context.Background())
	f, err := os.CreateTemp("", "zzverif-*.knut")
	if err != nil {
		panic(err)
	}
	defer os.Remove(f.Name())
	p := printer.New(f)
	for _, d := range dirs(zzNewRegistry()) {
		if t, ok := d.(*model.Transaction); ok {
			p.UpdatePadding(t)
		}
	}
	for _, d := range dirs(zzNewRegistry()) {
		p.PrintDirectiveLn(d)
		f.WriteString("\n")
	}
	f.Close()
	err = exec(cmd, []string{f.Name()})
	return out.String(), err
}

func zzDate(s string) time.Time {
	t, err := time.Parse("2006-01-02", s)
	if err != nil {
		panic(err)
	}
	return t
}
