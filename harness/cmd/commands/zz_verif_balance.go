package commands

import (
	"encoding/csv"
	"fmt"
	"io"
	"strings"

	"github.com/sboehler/knut/lib/common/date"
	"github.com/sboehler/knut/lib/common/table"
	"github.com/sboehler/knut/lib/journal"
	"github.com/sboehler/knut/lib/model"
	"github.com/sboehler/knut/lib/model/posting"
	"github.com/sboehler/knut/lib/model/transaction"
	"github.com/shopspring/decimal"
	"github.com/spf13/cobra"

	v "github.com/sboehler/knut/lib/zzverif"
)

var zzAccounts = []string{"Assets:A", "Assets:B:C", "Liabilities:L", "Equity:Equity", "Equity:E", "Income:I", "Expenses:X", "Expenses:Y:Z", "Assets:B", "Expenses:Y", "Assets:AssetsPool"}
var zzComms = []string{"V", "C1", "C2"}
var zzDays = []string{"2020-01-30", "2020-01-31", "2020-02-01", "2020-12-31", "2021-01-01"}

const (
	aA = iota
	aBC
	aL
	aEq
	aE
	aI
	aX
	aYZ
	aB
	aY
	aPool
)

// booking: on day, credit account -> debit account, commodity, quantity slot
// (slot < 0: the constant -slot-1 of zzConstQ)
type zzBk struct{ day, cr, dr, com, q int }

// price declaration: on day, price of com in tgt, price slot
type zzPr struct{ day, com, tgt, p int }

type zzCl struct{ day, acc int }

// open directive on a day: the account's only open (instead of the one before the
// first day), or, with reopen, a second open after a close
type zzOp struct {
	day, acc int
	reopen   bool
}

type zzShape struct {
	bk   []zzBk
	pr   []zzPr
	cl   []zzCl // close directives
	op   []zzOp // open directives on later days
	cyclic bool // the price graph has alternative paths
	tied bool   // two more transactions with the same date and description, one's postings a prefix of the other's
}

var zzConstQ = []string{"0", "-3.5", "100", "0.00000001", "12345.678"}

var zzShapes = []zzShape{
	0: {bk: []zzBk{{0, aEq, aA, 0, 0}}},
	1: {bk: []zzBk{{0, aEq, aA, 1, 0}, {2, aA, aX, 1, 1}}, pr: []zzPr{{0, 1, 0, 0}, {2, 1, 0, 1}}},
	2: {bk: []zzBk{{1, aL, aA, 0, 0}, {3, aA, aX, 0, 1}, {3, aI, aA, 1, 2}}, pr: []zzPr{{0, 1, 0, 0}}},
	3: {bk: []zzBk{{3, aI, aA, 0, 0}, {4, aA, aYZ, 0, 1}}},
	4: {bk: []zzBk{{1, aE, aBC, 2, 0}, {2, aBC, aX, 2, 1}}, pr: []zzPr{{0, 2, 1, 0}, {0, 1, 0, 1}, {2, 1, 0, 2}}},
	5: {bk: []zzBk{{0, aEq, aA, 1, 0}, {1, aA, aBC, 1, 1}, {3, aBC, aL, 1, -2}}, pr: []zzPr{{0, 0, 1, 0}, {3, 0, 1, 1}}},
	6: {bk: []zzBk{{0, aEq, aA, 0, -1}, {1, aA, aX, 1, 0}, {1, aI, aA, 1, -2}}, pr: []zzPr{{0, 1, 0, 0}, {1, 1, 0, 1}}},
	7: {bk: []zzBk{{0, aI, aA, 1, 0}, {0, aI, aA, 2, 1}, {4, aA, aX, 1, 2}}, pr: []zzPr{{0, 1, 0, 0}, {0, 2, 0, 1}, {3, 1, 0, 2}, {4, 2, 0, 0}}},
	// an expense account booked at two different prices, then closed at the next period start
	8: {bk: []zzBk{{0, aEq, aX, 1, 0}, {1, aX, aA, 1, 1}, {3, aEq, aA, 0, -3}}, pr: []zzPr{{0, 1, 0, 0}, {1, 1, 0, 1}}},
	// accounts that are booked directly and also have booked sub-accounts
	9: {bk: []zzBk{{0, aEq, aB, 0, 0}, {1, aB, aBC, 0, 1}, {1, aI, aY, 1, 2}, {2, aY, aYZ, 1, -3}}, pr: []zzPr{{0, 1, 0, 0}}},
	// an account whose later segment contains its own type name (for --remap)
	10: {bk: []zzBk{{0, aEq, aPool, 0, 0}, {1, aPool, aL, 0, 1}, {2, aPool, aX, 0, -3}}},
	// a price that is declared only after the commodity is first used (missing price on day 0)
	11: {bk: []zzBk{{0, aI, aX, 1, 0}, {3, aEq, aA, 0, 1}}, pr: []zzPr{{2, 1, 0, 0}}},
	// liability in a foreign commodity held across two price changes
	12: {bk: []zzBk{{0, aL, aA, 1, 0}, {2, aA, aX, 0, 1}}, pr: []zzPr{{0, 1, 0, 0}, {1, 1, 0, 1}, {3, 1, 0, 2}}},
	// an account that is closed and then used again (must be rejected)
	13: {bk: []zzBk{{0, aEq, aX, 0, 0}, {3, aEq, aX, 0, 1}}, cl: []zzCl{{1, aX}}},
	// accounts closed after their last use
	14: {bk: []zzBk{{0, aEq, aX, 0, 0}, {1, aEq, aA, 1, 1}, {2, aA, aEq, 1, 1}}, pr: []zzPr{{0, 1, 0, 0}, {2, 1, 0, 1}}, cl: []zzCl{{3, aX}, {4, aA}}},
	// transactions that compare equal up to a prefix of their postings
	15: {bk: []zzBk{{0, aEq, aA, 0, 0}}, tied: true},
	// one account holding the same quantity of two commodities
	16: {bk: []zzBk{{0, aEq, aA, 1, 0}, {0, aEq, aA, 2, 0}, {1, aEq, aL, 1, 1}}},
	// a foreign position sold down to exactly zero, the account closed, the price changing afterwards
	17: {bk: []zzBk{{0, aEq, aX, 0, 0}, {1, aEq, aA, 1, 1}, {2, aA, aEq, 1, 1}}, pr: []zzPr{{0, 1, 0, 0}, {2, 1, 0, 1}, {4, 1, 0, 2}}, cl: []zzCl{{3, aA}}},
	// an account that is closed, opened again and used again
	18: {bk: []zzBk{{0, aEq, aA, 0, 0}, {1, aA, aEq, 0, 0}, {4, aEq, aA, 0, 1}}, cl: []zzCl{{2, aA}}, op: []zzOp{{3, aA, true}}},
	// an account opened only after other accounts have been booked
	19: {bk: []zzBk{{0, aEq, aA, 0, 0}, {4, aA, aYZ, 0, 1}}, op: []zzOp{{3, aYZ, false}}},
	// a price graph with alternative paths (C1 in V, C2 in V, C1 in C2): findings C12-F1 / C06-F18
	// a price declared for a day after the last transaction
	21: {bk: []zzBk{{0, aEq, aA, 1, 0}}, pr: []zzPr{{0, 1, 0, 0}, {3, 1, 0, 1}}},
	20: {bk: []zzBk{{1, aEq, aA, 1, -3}, {1, aEq, aA, 2, -5}}, pr: []zzPr{{0, 1, 0, 0}, {0, 2, 0, 1}, {0, 1, 2, 2}}, cyclic: true},
}

type zzInputs struct {
	q []decimal.Decimal
	p []decimal.Decimal
}

// zzMakeInputs draws the symbolic quantities and prices of a shape.
// mode 0: quantities symbolic, prices concrete; 1: prices symbolic, quantities
// concrete; 2: both symbolic; 3: only the first price symbolic (keeps chained prices linear).
func zzMakeInputs(sh zzShape, mode, scale int) zzInputs {
	var in zzInputs
	nq, np := 0, 0
	for _, b := range sh.bk {
		if b.q+1 > nq {
			nq = b.q + 1
		}
	}
	for _, p := range sh.pr {
		if p.p+1 > np {
			np = p.p + 1
		}
	}
	concQ := []string{"10", "-2.5", "7.25"}
	concP := []string{"1.25000013", "0.80000007", "3.10000009"} // products with a quantity exceed 8 decimals
	for i := 0; i < nq; i++ {
		if mode == 1 || mode == 3 {
			in.q = append(in.q, decimal.RequireFromString(concQ[i%3]))
		} else {
			in.q = append(in.q, v.Decimal("q", scale))
		}
	}
	for i := 0; i < np; i++ {
		if mode == 0 || (mode == 3 && i > 0) {
			in.p = append(in.p, decimal.RequireFromString(concP[i%3]))
		} else {
			p := v.Decimal("p", 3)
			v.Assume(p.IsPositive())
			in.p = append(in.p, p)
		}
	}
	return in
}

func (in zzInputs) qty(slot int) decimal.Decimal {
	if slot < 0 {
		return decimal.RequireFromString(zzConstQ[-slot-1])
	}
	return in.q[slot]
}

// zzBuildShape builds the journal of a shape through the real model constructors.
func zzBuildShape(reg *model.Registry, sh zzShape, in zzInputs) *journal.Builder {
	return zzBuildShapePerm(reg, sh, in, nil)
}

// zzOwn is the number of directives of a shape besides the opens.
func zzOwn(sh zzShape) int {
	n := len(sh.pr) + len(sh.cl) + len(sh.bk) + len(sh.op)
	if sh.tied {
		n += 2
	}
	return n
}

// zzBuildShapePerm adds the shape's directives (prices, closes, bookings) in the
// arrival order given by perm (nil = canonical).
func zzBuildShapePerm(reg *model.Registry, sh zzShape, in zzInputs, perm []int) *journal.Builder {
	b := journal.New()
	for _, d := range zzShapeDirectives(reg, sh, in, perm) {
		b.Add(d)
	}
	return b
}

// zzShapeDirectives returns the directives of a shape in arrival order.
func zzShapeDirectives(reg *model.Registry, sh zzShape, in zzInputs, perm []int) []model.Directive {
	var b zzDirList
	for ai, name := range zzAccounts {
		late := false
		for _, o := range sh.op {
			if o.acc == ai && !o.reopen {
				late = true
			}
		}
		if !late {
			b.Add(&model.Open{Date: zzDate("2019-12-31"), Account: reg.Accounts().MustGet(name)})
		}
	}
	n := zzOwn(sh)
	nTied := 0
	if sh.tied {
		nTied = 2
	}
	for pos := 0; pos < n; pos++ {
		i := pos
		if perm != nil {
			i = perm[pos]
		}
		switch {
		case i < len(sh.pr):
			p := sh.pr[i]
			b.Add(&model.Price{Date: zzDate(zzDays[p.day]), Commodity: reg.Commodities().MustGet(zzComms[p.com]), Price: in.p[p.p], Target: reg.Commodities().MustGet(zzComms[p.tgt])})
		case i < len(sh.pr)+len(sh.cl):
			c := sh.cl[i-len(sh.pr)]
			b.Add(&model.Close{Date: zzDate(zzDays[c.day]), Account: reg.Accounts().MustGet(zzAccounts[c.acc])})
		case i >= len(sh.pr)+len(sh.cl)+len(sh.bk)+nTied:
			o := sh.op[i-len(sh.pr)-len(sh.cl)-len(sh.bk)-nTied]
			b.Add(&model.Open{Date: zzDate(zzDays[o.day]), Account: reg.Accounts().MustGet(zzAccounts[o.acc])})
		case i >= len(sh.pr)+len(sh.cl)+len(sh.bk):
			// the two tied transactions: same date, same description; postings P and P+Q
			ti := i - len(sh.pr) - len(sh.cl) - len(sh.bk)
			pp := posting.Builder{Credit: reg.Accounts().MustGet(zzAccounts[aEq]), Debit: reg.Accounts().MustGet(zzAccounts[aA]), Commodity: reg.Commodities().MustGet("V"), Quantity: decimal.RequireFromString("5")}.Build()
			if ti == 1 {
				pp = append(pp, posting.Builder{Credit: reg.Accounts().MustGet(zzAccounts[aA]), Debit: reg.Accounts().MustGet(zzAccounts[aX]), Commodity: reg.Commodities().MustGet("V"), Quantity: decimal.RequireFromString("2")}.Build()...)
			}
			b.Add(transaction.Builder{Date: zzDate(zzDays[1]), Description: "tie", Postings: pp}.Build())
		default:
			bi := i - len(sh.pr) - len(sh.cl)
			k := sh.bk[bi]
			b.Add(transaction.Builder{
				Date:        zzDate(zzDays[k.day]),
				Description: fmt.Sprintf("t%d", bi),
				Postings: posting.Builder{
					Credit:    reg.Accounts().MustGet(zzAccounts[k.cr]),
					Debit:     reg.Accounts().MustGet(zzAccounts[k.dr]),
					Commodity: reg.Commodities().MustGet(zzComms[k.com]),
					Quantity:  in.qty(k.q),
				}.Build(),
			}.Build())
		}
	}
	return b.ds
}

type zzDirList struct{ ds []model.Directive }

func (l *zzDirList) Add(d model.Directive) { l.ds = append(l.ds, d) }

// zzCell is one cell of the report in a renderer independent form.
type zzCell struct {
	text  string
	num   decimal.Decimal
	isNum bool
}

// zzReport runs balanceRunner.execute and returns the report rows (rows
// without any text are dropped, as the CSV renderer does).
func zzReport(r *balanceRunner, build func(reg *model.Registry) *journal.Builder) ([][]zzCell, error) {
	return zzReportVia(r, func(exec func(cmd *cobra.Command, args []string) error) (string, error) { return zzRun(build, exec) })
}

// zzReportDirs: as zzReport for an ordered list of directives (arrival order preserved natively).
func zzReportDirs(r *balanceRunner, dirs func(reg *model.Registry) []model.Directive) ([][]zzCell, error) {
	return zzReportVia(r, func(exec func(cmd *cobra.Command, args []string) error) (string, error) { return zzRunDirs(dirs, exec) })
}

// zzReportText: as zzReport for a journal given as text.
func zzReportText(r *balanceRunner, text string) ([][]zzCell, error) {
	return zzReportVia(r, func(exec func(cmd *cobra.Command, args []string) error) (string, error) { return zzRunText(text, exec) })
}

func zzReportVia(r *balanceRunner, run func(exec func(cmd *cobra.Command, args []string) error) (string, error)) ([][]zzCell, error) {
	var captured *table.Table
	if v.Symbolic() {
		v.Override("(*github.com/sboehler/knut/lib/common/table.TextRenderer).Render", func(tr *table.TextRenderer, t *table.Table, w io.Writer) error {
			captured = t
			return nil
		})
	} else {
		r.csv = true
	}
	out, err := run(func(cmd *cobra.Command, args []string) error { return r.execute(cmd, args) })
	if err != nil {
		return nil, err
	}
	var rows [][]zzCell
	if v.Symbolic() {
		for _, row := range table.ZZRows(captured) {
			var cells []zzCell
			hasText := false
			for _, c := range row {
				switch c.Kind {
				case 2:
					cells = append(cells, zzCell{text: c.Text})
					if c.Text != "" {
						hasText = true
					}
				case 3:
					cells = append(cells, zzCell{num: c.N, isNum: true})
					hasText = true // the CSV renderer prints a number (possibly "0")
				default:
					cells = append(cells, zzCell{})
				}
			}
			if hasText {
				rows = append(rows, cells)
			}
		}
		return rows, nil
	}
	recs, cerr := csv.NewReader(strings.NewReader(out)).ReadAll()
	if cerr != nil {
		panic(cerr)
	}
	for ri, rec := range recs {
		var cells []zzCell
		for ci, f := range rec {
			if ri > 0 && ci > 0 && f != "" {
				if d, err := decimal.NewFromString(f); err == nil {
					cells = append(cells, zzCell{num: d, isNum: true})
					continue
				}
			}
			cells = append(cells, zzCell{text: f})
		}
		rows = append(rows, cells)
	}
	return rows, nil
}

// zzSetFlags configures the runner from the instance parameters.
func zzSetFlags(r *balanceRunner) {
	val := v.Param("val") // 0 none, 1 V, 2 C1
	if val > 0 {
		r.valuation.Set(zzComms[val-1])
	}
	iv := v.Param("interval") // 0 once(default) 1 days 3 months 5 years ...
	from, to := "", "2999-12-31"
	switch v.Param("window") {
	case 1:
		from, to = "2020-01-31", "2020-12-31"
	case 2:
		from, to = "2019-01-01", "2020-02-01"
	case 3:
		from, to = "2020-02-02", "2020-12-30" // days without any directive
	case 4:
		from, to = "", "2020-01-01" // ends before the first transaction: empty window
	case 5:
		from, to = "2020-02-01", "2020-01-30" // inverted
	}
	r.Multiperiod.ZZSet(from, to, v.Param("last"), date.Interval(iv), iv != 0)
	r.diff = v.Param("diff") == 1
	r.close = v.Param("close") == 1
	r.sortAlphabetically = true
	zzSchedule = v.Param("schedule")
}

// VerifConservation: C01. The Delta row of every complete report is zero.
func VerifConservation() {
	sh := zzShapes[v.Param("shape")]
	in := zzMakeInputs(sh, v.Param("mode"), v.Param("scale"))
	var r balanceRunner
	zzSetFlags(&r)
	rows, err := zzReport(&r, func(reg *model.Registry) *journal.Builder { return zzBuildShape(reg, sh, in) })
	// the journal is accepted by check and all needed prices exist from the first day on
	v.Assert(err == nil, "accepted-journal-report-proceeds")
	if err != nil {
		return
	}
	inDelta := false
	seen := false
	for _, row := range rows {
		if len(row) == 0 {
			continue
		}
		if row[0].text != "" {
			inDelta = row[0].text == "Delta"
		}
		if !inDelta {
			continue
		}
		seen = true
		for _, c := range row[1:] {
			if c.isNum {
				v.Assert(c.num.IsZero(), "delta-is-zero")
			}
		}
	}
	v.Assert(seen, "report-has-delta-row")
	v.Observe("rows", len(rows))
}
