package commands

import (
	"time"
	"github.com/sboehler/knut/lib/journal"
	"github.com/sboehler/knut/lib/model"
	"github.com/sboehler/knut/lib/syntax"
	"github.com/spf13/cobra"

	v "github.com/sboehler/knut/lib/zzverif"
)

const zzFCOpens = "2020-01-01 open Assets:A\n2020-01-01 open Assets:P\n2020-01-01 open Expenses:X\n2020-01-01 open Equity:Equity\n\n"

// VerifFailCleanly: C14 kernel. The library code a command runs never panics;
// it returns an error instead, and a failing report command has written nothing
// to its standard output.
func VerifFailCleanly() {
	kind := v.Param("case")
	zzSchedule = 0
	var (
		out string
		err error
	)
	f5, f6, f13 := false, false, false
	run := func() {}
	switch kind {
	case 0: // @accrue with symbolic window dates (month/day digits), any of the four intervals
		iv := []string{"daily", "weekly", "monthly", "quarterly"}[v.Param("interval")]
		months := []string{"01", "02", "03", "12"}
		start := "2020-" + months[v.Choice("sm", 4)] + "-" + v.Digits("sd", 2)
		end := "2020-" + months[v.Choice("em", 4)] + "-" + v.Digits("ed", 2)
		if ts, e1 := time.Parse("2006-01-02", start); e1 == nil {
			if te, e2 := time.Parse("2006-01-02", end); e2 == nil {
				// stated bound: inverted windows of any size, non-inverted ones of at most 3 days (longer
				// well-formed windows are C10's subject)
				v.Assume(te.Before(ts.AddDate(0, 0, 3)))
			}
		}
		text := zzFCOpens + "@accrue " + iv + " " + start + " " + end + " Assets:P\n2020-01-05 \"rent\"\nAssets:A Expenses:X 300 CHF\n"
		f5 = end < start // an inverted accrual window (ISO dates compare like strings)
		run = func() {
			// parser + model.ParseDirective (transaction.Create / expand): the part of the loader that
			// turns the annotation into transactions
			var f syntax.File
			if f, err = zzParseText(text, "j"); err != nil {
				return
			}
			reg := zzNewRegistry()
			for _, d := range f.Directives {
				if _, err = model.ParseDirective(reg, d); err != nil {
					return
				}
			}
		}
	case 1: // date hazards in a transaction header: year 0000/0001, month 00/13, day 00/31
		months := []string{"00", "01", "02", "12", "13"}
		days := []string{"00", "01", "28", "29", "30", "31", "32"}
		d := "000" + v.Digits("y", 1) + "-" + months[v.Choice("m", len(months))] + "-" + days[v.Choice("d", len(days))]
		text := "0001-01-01 open Assets:A\n0001-01-01 open Equity:Equity\n0000-01-01 open Expenses:X\n\n" + d + " \"old\"\nEquity:Equity Assets:A 1 CHF\n"
		f13 = d <= "0001-01-01" // on or before the zero time.Time
		run = func() {
			var r balanceRunner
			r.Multiperiod.ZZSet("", "2999-12-31", 0, 0, false)
			r.sortAlphabetically = true
			r.csv = true
			out, err = zzRunText(text, func(cmd *cobra.Command, args []string) error { return r.execute(cmd, args) })
		}
	case 2: // transcode with the optional -v flag absent / present
		sh := zzShapes[1]
		in := zzMakeInputs(sh, 1, 2)
		withVal := v.Choice("val", 2) == 1
		f6 = !withVal
		run = func() {
			var r transcodeRunner
			if withVal {
				r.valuation.Set("V")
			}
			out, err = zzRun(func(reg *model.Registry) *journal.Builder { return zzBuildShape(reg, sh, in) }, func(cmd *cobra.Command, args []string) error { return r.execute(cmd, args) })
		}
	case 3: // balance: --last negative, zero, small, huge; inverted and empty windows; empty journals
		lasts := []int{-1000000, -1, 0, 1, 2, 1000000}
		last := lasts[v.Choice("last", len(lasts))]
		iv := []int{0, 1, 3, 5}[v.Choice("interval", 4)]
		windows := [][2]string{{"", "2999-12-31"}, {"2020-03-01", "2020-01-01"}, {"", "2019-01-01"}, {"2021-06-01", "2999-12-31"}}
		w := windows[v.Choice("window", len(windows))]
		journals := []string{"", zzFCOpens, zzFCOpens + "2020-01-05 \"t\"\nEquity:Equity Assets:A 1 CHF\n\n2020-02-05 \"t\"\nAssets:A Expenses:X 1 CHF\n", "2020-01-05 price CHF 1 USD\n"}
		text := journals[v.Choice("journal", len(journals))]
		val := v.Choice("val", 2)
		run = func() {
			var r balanceRunner
			r.Multiperiod.ZZSet(w[0], w[1], last, 0, false)
			if iv != 0 {
				r.Multiperiod.ZZSet(w[0], w[1], last, 0, false)
				r.Multiperiod.ZZSet("", "", last, 0, false)
			}
			r.Multiperiod.ZZSetInterval(iv)
			if val == 1 {
				r.valuation.Set("CHF")
			}
			r.digits = int32(v.Choice("digits", 3)) - 1
			r.csv = v.Choice("csv", 2) == 1
			out, err = zzRunText(text, func(cmd *cobra.Command, args []string) error { return r.execute(cmd, args) })
		}
	case 4: // hazards in amounts and names (concrete catalogue)
		texts := []string{
			zzFCOpens + "2020-01-05 \"big\"\nEquity:Equity Assets:A 123456789012345678901234567890.123456789012345678901234567890 CHF\n",
			"2020-01-01 open TBD:Foo\n",
			"2020-01-01 open Assets:\n",
			zzFCOpens + "2020-01-05 balance Assets:A 1e5 CHF\n",
			zzFCOpens + "2020-13-45 \"x\"\nEquity:Equity Assets:A 1 CHF\n",
			zzFCOpens + "2020-01-05 price CHF 0 USD\n",
			zzFCOpens + "@performance(CHF,CHF,)\n2020-01-05 \"x\"\nEquity:Equity Assets:A 1 CHF\n",
			"include \"does-not-exist.knut\"\n",
			// same date and description, one's postings a prefix of the other's (both arrival orders)
			zzFCOpens + "2020-01-05 \"t\"\nEquity:Equity Assets:A 1 CHF\nAssets:A Expenses:X 1 CHF\n\n2020-01-05 \"t\"\nEquity:Equity Assets:A 1 CHF\n",
			zzFCOpens + "2020-01-05 \"t\"\nEquity:Equity Assets:A 1 CHF\n\n2020-01-05 \"t\"\nEquity:Equity Assets:A 1 CHF\nAssets:A Expenses:X 1 CHF\n",
			// journals that parse and build but fail the check: nothing may reach standard output (seed C14-r4m2)
			zzFCOpens + "2020-01-05 \"t\"\nEquity:Equity Assets:A 100 CHF\n\n2020-01-06 balance Assets:A 99 CHF\n",
			zzFCOpens + "2020-01-05 \"t\"\nEquity:Equity Assets:Unopened 1 CHF\n",
		}
		text := texts[v.Choice("text", len(texts))]
		run = func() {
			var r printRunner
			out, err = zzRunText(text, func(cmd *cobra.Command, args []string) error { return r.execute(cmd, args) })
		}
	case 6: // flag combinations: -m with level 0 / suffix together with --account, --commodity, --remap filters
		lvl := []string{"0,Assets", "0", "1:1,Expenses", "2,^Assets"}[v.Choice("map", 4)]
		acc := []string{"", "Assets", "^Expenses:X$", "nomatch"}[v.Choice("account", 4)]
		com := []string{"", "CHF", "nomatch"}[v.Choice("commodity", 3)]
		remap := v.Choice("remap", 2) == 1
		text := zzFCOpens + "2020-01-05 \"t\"\nEquity:Equity Assets:A 1 CHF\n\n2020-02-05 \"t\"\nAssets:A Expenses:X 1 CHF\n"
		run = func() {
			var r balanceRunner
			r.Multiperiod.ZZSet("", "2999-12-31", 0, 0, false)
			r.mapping.Set(lvl)
			if acc != "" {
				r.accounts.Set(acc)
			}
			if com != "" {
				r.commodities.Set(com)
			}
			if remap {
				r.remap.Set("Expenses")
			}
			r.sortAlphabetically = true
			r.csv = true
			out, err = zzRunText(text, func(cmd *cobra.Command, args []string) error { return r.execute(cmd, args) })
		}
	case 5: // a declared price with symbolic digits down to 1e-10 (zero, tiny, ordinary), valued report
		text := zzFCOpens + "2020-01-05 price USD " + v.Digits("pi", 1) + "." + v.Digits("pf", 10) + " CHF\n\n2020-01-06 \"t\"\nEquity:Equity Assets:A 2 USD\n"
		run = func() {
			var r balanceRunner
			r.Multiperiod.ZZSet("", "2999-12-31", 0, 0, false)
			r.valuation.Set("CHF")
			r.sortAlphabetically = true
			_, err = zzReportText(&r, text) // (the rendered numbers are symbolic: the table is captured, not printed)
		}
	}
	panicked, _ := v.Try(run)
	switch {
	case f5:
		v.AssertExcept(!panicked, "no-panic", "C14-F5", true)
	case f6:
		v.AssertExcept(!panicked, "no-panic", "C14-F6", true)
	case f13:
		v.AssertExcept(!panicked, "no-panic", "C14-F13", true)
	default:
		v.Assert(!panicked, "no-panic")
	}
	if !panicked && err != nil {
		v.Assert(out == "", "failing-report-command-leaves-stdout-empty")
	}
	v.Observe("failed", err != nil)
}
