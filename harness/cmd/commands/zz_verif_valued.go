package commands

import (
	"strings"

	"github.com/sboehler/knut/lib/journal"
	"github.com/sboehler/knut/lib/model"
	"github.com/shopspring/decimal"

	v "github.com/sboehler/knut/lib/zzverif"
)

// zzPriceIn: price of commodity c in valuation commodity val as of day `day`
// (ISO), by the property's definition: latest declaration on or before the
// day; the other direction is trunc8(round16(1/p)); chains multiply with
// truncation to 8 decimals per step. Tree-shaped price graphs only.
func zzPriceIn(sh zzShape, in zzInputs, val, c int, day string) (decimal.Decimal, bool) {
	one := decimal.NewFromInt(1)
	if c == val {
		return one, true
	}
	type edge struct {
		ok   bool
		p    decimal.Decimal
		date string
	}
	var pr [3][3]edge // pr[x][y]: price of x in y
	for _, d := range sh.pr {
		dd := zzDays[d.day]
		if dd > day {
			continue
		}
		if !pr[d.com][d.tgt].ok || dd >= pr[d.com][d.tgt].date {
			p := in.p[d.p]
			pr[d.com][d.tgt] = edge{true, p, dd}
			pr[d.tgt][d.com] = edge{true, one.Div(p).Truncate(8), dd}
		}
	}
	var res [3]edge
	res[val] = edge{ok: true, p: one}
	for round := 0; round < 3; round++ {
		for x := 0; x < 3; x++ {
			if !res[x].ok {
				continue
			}
			for n := 0; n < 3; n++ {
				if pr[n][x].ok && !res[n].ok {
					res[n] = edge{ok: true, p: pr[n][x].p.Mul(res[x].p).Truncate(8)}
				}
			}
		}
	}
	return res[c].p, res[c].ok
}

// VerifValued: C03. Valued balances are mark-to-market at the latest known price.
func VerifValued() {
	shIdx := v.Param("shape")
	sh := zzShapes[shIdx]
	in := zzMakeInputs(sh, v.Param("mode"), v.Param("scale"))
	val := v.Param("val") - 1
	var r balanceRunner
	zzSetFlags(&r)
	detail := v.Param("detail") == 1 // -s ^Assets: per-commodity rows for asset accounts in the valued report
	if detail {
		r.showCommodities.Set("^Assets")
	}
	rows, err := zzReport(&r, func(reg *model.Registry) *journal.Builder { return zzBuildShape(reg, sh, in) })

	ledger := zzLedger(sh, in)
	// is every needed price available on the day it is needed?
	// (a booking in a commodity other than the valuation needs a price on its day; an A/L position
	// needs one on every later journal day)
	needOK := true
	for _, b := range sh.bk {
		if _, ok := zzPriceIn(sh, in, val, b.com, zzDays[b.day]); !ok && !in.qty(b.q).IsZero() {
			needOK = false // (a zero quantity needs no price)
		}
	}
	if !needOK {
		v.Assert(err != nil, "missing-price-is-an-error")
		return
	}
	v.Assert(err == nil, "report-proceeds-when-prices-exist")
	if err != nil || len(rows) == 0 {
		return
	}
	hdr := rows[0]
	off := 1
	if len(hdr) > 1 && hdr[1].text == "Comm" {
		off = 2
	}
	v.Assert((off == 2) == detail, "commodity-column-iff-details-requested")
	var ends []string
	for _, c := range hdr[off:] {
		ends = append(ends, c.text)
	}
	tol := decimal.New(int64(len(sh.bk)*2+len(sh.pr)*len(sh.bk)+2), -8)
	known := map[string]bool{}
	addKnown := func(name string) {
		segs := strings.Split(name, ":")
		for i := 1; i <= len(segs); i++ {
			known[strings.Join(segs[:i], ":")] = true
		}
	}
	for _, e := range ledger {
		addKnown(e.acc)
		if e.isAL {
			segs := strings.Split(e.acc, ":")
			addKnown("Income:" + strings.Join(segs[1:], ":"))
		}
	}
	closing := v.Param("close") == 1
	// --from: the report shows the change since the day before the window start (value then, at the
	// prices known then, is subtracted); "" = the window starts before the journal does
	before := map[int]string{1: "2020-01-30", 3: "2020-02-01"}[v.Param("window")]
	windowed := v.Param("window") != 0
	addKnown("Equity:Equity")
	var path []string
	cur := ""
	section := 0
	for _, row := range rows[1:] {
		name := row[0].text
		if name == "" {
			// continuation row of the current account (another commodity)
			if off == 2 && cur != "" && strings.HasPrefix(cur, "Assets") && section == 0 {
				for j := range ends {
					got := decimal.Zero
					if row[off+j].isNum {
						got = row[off+j].num
					}
					zzCheckDetailCell(sh, in, val, ledger, cur, row[1].text, ends[j], got, tol)
				}
			}
			continue
		}
		switch name {
		case "Total (A+L)":
			section, cur, path = 1, "", nil
			continue
		case "Total (E+I+E)", "Delta":
			section, cur, path = 2, "", nil
			continue
		}
		if section == 2 {
			continue
		}
		found := false
		for k := len(path); k >= 0; k-- {
			cand := strings.Join(append(append([]string{}, path[:k]...), name), ":")
			if known[cand] {
				path = append(append([]string{}, path[:k]...), name)
				cur = cand
				found = true
				break
			}
		}
		v.Assert(found, "row-is-a-known-account")
		if !found {
			continue
		}
		for j := range ends {
			cell := row[off+j]
			got := decimal.Zero
			if cell.isNum {
				got = cell.num
			}
			D := ends[j]
			switch {
			case off == 2 && strings.HasPrefix(cur, "Assets") && !windowed:
				zzCheckDetailCell(sh, in, val, ledger, cur, row[1].text, D, got, tol)
			case zzIsAL(cur):
				// mark-to-market: sum of positions times the latest price on or before D
				want := decimal.Zero
				for c := 0; c < 3; c++ {
					pos := decimal.Zero
					for _, e := range ledger {
						if e.acc == cur && e.com == zzComms[c] && e.day <= D {
							pos = pos.Add(e.q)
						}
					}
					p, ok := zzPriceIn(sh, in, val, c, D)
					if ok {
						want = want.Add(pos.Mul(p))
					}
					if before != "" {
						pos0 := decimal.Zero
						for _, e := range ledger {
							if e.acc == cur && e.com == zzComms[c] && e.day <= before {
								pos0 = pos0.Add(e.q)
							}
						}
						if p0, ok := zzPriceIn(sh, in, val, c, before); ok {
							want = want.Sub(pos0.Mul(p0))
						}
					}
				}
				v.Assert(got.Sub(want).Abs().LessThanOrEqual(tol), "asset-value-is-position-times-latest-price")
			case strings.HasPrefix(cur, "Income:") && !closing && !windowed && cur != "Income:I":
				// accumulated revaluation of the mirrored A/L account(s): value now minus value at booking prices
				want := decimal.Zero
				hasMirror := false
				for _, prefix := range []string{"Assets:", "Liabilities:"} {
					mirror := prefix + cur[len("Income:"):]
					for c := 0; c < 3; c++ {
						pos := decimal.Zero
						for _, e := range ledger {
							if e.acc == mirror && e.com == zzComms[c] && e.day <= D {
								hasMirror = true
								pos = pos.Add(e.q)
								pb, _ := zzPriceIn(sh, in, val, c, e.day)
								want = want.Sub(e.q.Mul(pb))
							}
						}
						p, ok := zzPriceIn(sh, in, val, c, D)
						if ok {
							want = want.Add(pos.Mul(p))
						}
					}
				}
				if hasMirror {
					v.Assert(got.Sub(want).Abs().LessThanOrEqual(tol), "revaluation-gain-on-mirroring-income-account")
				}
			case !closing && !windowed && !zzIsAL(cur):
				// income, expense and equity bookings are valued at the price of their booking day
				want := decimal.Zero
				direct := false
				for _, e := range ledger {
					if e.acc == cur && e.day <= D {
						direct = true
						for c := 0; c < 3; c++ {
							if e.com == zzComms[c] {
								pb, _ := zzPriceIn(sh, in, val, c, e.day)
								want = want.Sub(e.q.Mul(pb)) // E+I+E rows are shown negated
							}
						}
					}
				}
				if direct {
					v.Assert(got.Sub(want).Abs().LessThanOrEqual(tol), "income-expense-valued-at-booking-day-price")
				}
			}
		}
	}
	v.Observe("rows", len(rows))
}

// zzCheckDetailCell: with -s the value of one commodity's position is shown on its own row.
func zzCheckDetailCell(sh zzShape, in zzInputs, val int, ledger []zzEntry, acc, com, D string, got, tol decimal.Decimal) {
	for c := 0; c < 3; c++ {
		if zzComms[c] != com {
			continue
		}
		pos := decimal.Zero
		for _, e := range ledger {
			if e.acc == acc && e.com == com && e.day <= D {
				pos = pos.Add(e.q)
			}
		}
		want := decimal.Zero
		if p, ok := zzPriceIn(sh, in, val, c, D); ok {
			want = pos.Mul(p)
		}
		v.Assert(got.Sub(want).Abs().LessThanOrEqual(tol), "per-commodity-value-is-position-times-latest-price")
	}
}
