package commands

import (
	"strings"
	"unicode/utf8"

	"github.com/sboehler/knut/lib/journal"
	"github.com/sboehler/knut/lib/model"
	"github.com/sboehler/knut/lib/model/posting"
	"github.com/sboehler/knut/lib/model/transaction"
	"github.com/shopspring/decimal"

	v "github.com/sboehler/knut/lib/zzverif"
)

// VerifImportedText: C13 (partial). A transaction built the way every importer
// builds it (transaction.Builder + one posting pair between the import account
// and Expenses:TBD) with an arbitrary free-text description is printed by
// journal.Print; the text must parse back to that one transaction.
func VerifImportedText() {
	if v.Symbolic() {
		v.Override("github.com/sboehler/knut/lib/common/cpr.Seq", zzSeq)
	}
	zzSchedule = 0
	desc := v.Bytes("desc", v.Param("k"))
	v.Assume(utf8.ValidString(desc)) // free text consists of characters
	hasQuote := strings.Contains(desc, "\"")
	// the row amount: an outflow, an inflow, and a row of amount zero (e.g. a card verification)
	amount := decimal.RequireFromString([]string{"-12.50", "7", "0", "0.00"}[v.Choice("amount", 4)])
	reg := zzNewRegistry()
	acc := reg.Accounts().MustGet("Assets:Bank")
	tbd := reg.Accounts().TBDAccount()
	b := journal.New()
	b.Add(transaction.Builder{
		Date:        zzDate("2021-03-04"),
		Description: desc,
		Postings: posting.Builder{
			Credit: tbd, Debit: acc, Commodity: reg.Commodities().MustGet("CHF"), Quantity: amount,
		}.Build(),
	}.Build())
	var sb strings.Builder
	err := journal.Print(&sb, b.Build())
	v.Assert(err == nil, "print-succeeds")
	text := sb.String()
	reg2 := zzNewRegistry()
	b2, lerr := zzLoadInto(reg2, text)
	v.AssertExcept(lerr == nil, "emitted-text-is-valid-for-knuts-parser", "C13-F14", hasQuote)
	if lerr != nil {
		return
	}
	var trx []*model.Transaction
	for _, d := range b2.Build().Days {
		trx = append(trx, d.Transactions...)
	}
	v.AssertExcept(len(trx) == 1, "exactly-one-transaction", "C13-F14", hasQuote)
	if len(trx) != 1 {
		return
	}
	t := trx[0]
	v.AssertExcept(t.Description == desc, "description-round-trips", "C13-F14", hasQuote)
	v.Assert(t.Date.Equal(zzDate("2021-03-04")) && len(t.Postings) == 2, "date-and-booking-round-trip")
	effect := decimal.Zero
	for _, p := range t.Postings {
		if p.Account.Name() == "Assets:Bank" && p.Commodity.Name() == "CHF" {
			effect = effect.Add(p.Quantity)
		}
	}
	v.Assert(effect.Equal(amount), "amount-round-trips")
	// ... and is re-printed unchanged
	var sb2 strings.Builder
	err = journal.Print(&sb2, b2.Build())
	v.Assert(err == nil && sb2.String() == text, "emitted-text-is-reprinted-unchanged")
}
