package commands

import (
	"strings"

	"github.com/sboehler/knut/lib/common/date"
	"github.com/sboehler/knut/lib/journal"
	"github.com/sboehler/knut/lib/model"
	"github.com/shopspring/decimal"

	v "github.com/sboehler/knut/lib/zzverif"
)

// ---- independent ledger computation (uses none of amounts, report, Query, CloseAccounts, Shorten) ----

type zzEntry struct {
	day  string // ISO date
	acc  string // account name
	com  string
	q    decimal.Decimal
	isAL bool
}

func zzIsAL(name string) bool {
	return strings.HasPrefix(name, "Assets") || strings.HasPrefix(name, "Liabilities")
}

func zzLedger(sh zzShape, in zzInputs) []zzEntry {
	var es []zzEntry
	for _, b := range sh.bk {
		q := in.qty(b.q)
		cr, dr := zzAccounts[b.cr], zzAccounts[b.dr]
		es = append(es,
			zzEntry{zzDays[b.day], cr, zzComms[b.com], q.Neg(), zzIsAL(cr)},
			zzEntry{zzDays[b.day], dr, zzComms[b.com], q, zzIsAL(dr)})
	}
	return es
}

type zzRule struct {
	level, suffix int
	prefix        string // rule regex is "^prefix"
}

// zzMapName: remap (swap account type) then shorten, on names.
func zzMapName(name string, remapPrefix string, rules []zzRule) (string, bool) {
	if remapPrefix != "" && strings.HasPrefix(name, remapPrefix) {
		switch {
		case strings.HasPrefix(name, "Assets"):
			name = "Liabilities" + name[len("Assets"):]
		case strings.HasPrefix(name, "Liabilities"):
			name = "Assets" + name[len("Liabilities"):]
		case strings.HasPrefix(name, "Income"):
			name = "Expenses" + name[len("Income"):]
		case strings.HasPrefix(name, "Expenses"):
			name = "Income" + name[len("Expenses"):]
		}
	}
	for _, r := range rules {
		if !strings.HasPrefix(name, r.prefix) {
			continue
		}
		if r.level == 0 {
			return "", false // hidden
		}
		segs := strings.Split(name, ":")
		n := len(segs)
		if r.suffix >= n || r.level > n-r.suffix {
			return name, true
		}
		out := append([]string{}, segs[:r.level]...)
		out = append(out, segs[n-r.suffix:]...)
		return strings.Join(out, ":"), true
	}
	return name, true
}

var zzMappings = [][]zzRule{
	0: nil,
	1: {{1, 0, "Assets"}},
	2: {{2, 0, "Expenses"}, {1, 0, "Assets"}},
	3: {{0, 0, "Expenses:X"}},
	4: {{1, 1, "Assets"}},      // non-zero suffix (finding C02-F12 in Shorten)
	5: {{1, 1, "Expenses:Y"}},  // suffix on an account of depth 3
	6: {{0, 0, "Income"}, {1, 0, ""}},
}

func zzRuleFlag(r zzRule) string {
	s := ""
	if r.suffix > 0 {
		s = strings.Join([]string{itoa(r.level), itoa(r.suffix)}, ":")
	} else {
		s = itoa(r.level)
	}
	return s + ",^" + r.prefix
}

func itoa(i int) string { return string(rune('0' + i)) }

// VerifLedger: C02. Every cell of the unvalued report equals an independent
// ledger computation; row set; hidden amounts only in Delta.
func VerifLedger() {
	sh := zzShapes[v.Param("shape")]
	in := zzMakeInputs(sh, 0, v.Param("scale"))
	var r balanceRunner
	zzSetFlags(&r)
	rules := zzMappings[v.Param("map")]
	for _, ru := range rules {
		r.mapping.Set(zzRuleFlag(ru))
	}
	remapPrefix := ""
	switch v.Param("remap") {
	case 1:
		remapPrefix = "Expenses:X"
		r.remap.Set("^Expenses:X")
	case 2:
		remapPrefix = "Assets:AssetsPool"
		r.remap.Set("^Assets:AssetsPool")
	}
	accPrefix, comFilter := "", ""
	switch v.Param("accf") {
	case 1:
		accPrefix = "Assets"
		r.accounts.Set("^Assets")
	case 2:
		accPrefix = "Expenses"
		r.accounts.Set("^Expenses")
	}
	if v.Param("comf") == 1 {
		comFilter = "C1"
		r.commodities.Set("^C1$")
	}
	suffixRule := false
	for _, ru := range rules {
		if ru.suffix > 0 {
			suffixRule = true
		}
	}
	rows, err := zzReport(&r, func(reg *model.Registry) *journal.Builder { return zzBuildShape(reg, sh, in) })
	v.Assert(err == nil, "report-proceeds")
	if err != nil || len(rows) == 0 {
		return
	}
	// header: Account, Comm, end dates
	hdr := rows[0]
	v.Assert(len(hdr) >= 2 && hdr[0].text == "Account" && hdr[1].text == "Comm", "header")
	var ends []string
	for _, c := range hdr[2:] {
		ends = append(ends, c.text)
	}
	// window = requested period clipped to the journal period
	minT, maxT := "9999-12-31", "0001-01-01"
	for _, b := range sh.bk {
		if d := zzDays[b.day]; d < minT {
			minT = d
		}
		if d := zzDays[b.day]; d > maxT {
			maxT = d
		}
	}
	for _, p := range sh.pr {
		if d := zzDays[p.day]; d > maxT {
			maxT = d
		}
	}
	from, to := "0001-01-01", "2999-12-31"
	switch v.Param("window") {
	case 1:
		from, to = "2020-01-31", "2020-12-31"
	case 2:
		from, to = "2019-01-01", "2020-02-01"
	case 3:
		from, to = "2020-02-02", "2020-12-30"
	case 4:
		from, to = "0001-01-01", "2020-01-01"
	case 5:
		from, to = "2020-02-01", "2020-01-30"
	}
	W, Wend := from, to
	if minT > W {
		W = minT
	}
	if maxT < Wend {
		Wend = maxT
	}
	if W > Wend {
		// empty window: no bookings are inside it, so no account rows (with interval `once` the
		// report still has its single, empty column)
		for _, row := range rows[1:] {
			n := row[0].text
			v.Assert(n == "" || n == "Total (A+L)" || n == "Total (E+I+E)" || n == "Delta", "empty-window-has-no-account-rows")
		}
		return
	}
	v.Assert(len(ends) >= 1 && ends[len(ends)-1] == Wend, "last-column-ends-at-window-end")
	if len(ends) == 0 {
		return
	}
	// period starts
	starts := make([]string, len(ends))
	for j := range ends {
		if j > 0 {
			starts[j] = zzDate(ends[j-1]).AddDate(0, 0, 1).Format("2006-01-02")
			continue
		}
		starts[0] = W
		if v.Param("last") > 0 && v.Param("interval") != 0 {
			s0 := date.StartOf(zzDate(ends[0]), date.Interval(v.Param("interval"))).Format("2006-01-02")
			if s0 > W {
				starts[0] = s0
			}
		}
	}
	closing := v.Param("close") == 1
	diff := v.Param("diff") == 1
	ledger := zzLedger(sh, in)
	passes := func(e zzEntry) bool {
		if e.day < W || e.day > Wend {
			return false
		}
		if accPrefix != "" && !strings.HasPrefix(e.acc, accPrefix) {
			return false
		}
		if comFilter != "" && e.com != comFilter {
			return false
		}
		return true
	}
	// cumulative expectation of one (mapped row, commodity) at column j
	cum := func(row, com string, j int) decimal.Decimal {
		total := decimal.Zero
		for _, e := range ledger {
			if e.com != com || e.day > ends[j] {
				continue
			}
			inWindow := e.day >= W && e.day <= Wend
			if !inWindow {
				continue
			}
			isIE := !e.isAL && e.acc != "Equity:Equity"
			// (a) the entry itself, on its own (mapped) row
			if passes(e) {
				if m, ok := zzMapName(e.acc, remapPrefix, rules); ok && m == row {
					if !(closing && isIE) || e.day >= starts[j] {
						total = total.Add(e.q)
					}
				}
			}
			// (b) with period closing, what has been closed out of an income/expense account is
			// carried by Equity:Equity (the closing transaction passes the filters as Equity:Equity)
			if closing && isIE && e.day < starts[j] {
				ce := zzEntry{day: e.day, acc: "Equity:Equity", com: e.com}
				okF := (accPrefix == "" || strings.HasPrefix(ce.acc, accPrefix)) && (comFilter == "" || e.com == comFilter)
				if m, ok := zzMapName("Equity:Equity", remapPrefix, rules); ok && m == row && okF {
					total = total.Add(e.q)
				}
				_ = ce
			}
		}
		return total
	}
	expect := func(row, com string, j int) decimal.Decimal {
		c := cum(row, com, j)
		if diff && j > 0 {
			return c.Sub(cum(row, com, j-1))
		}
		return c
	}
	// expected row names (mapped accounts with an in-window entry passing the filters) and their ancestors
	known := map[string]bool{}
	direct := map[string]bool{} // mapped names that receive entries themselves
	addKnown := func(name string) {
		direct[name] = true
		segs := strings.Split(name, ":")
		for i := 1; i <= len(segs); i++ {
			known[strings.Join(segs[:i], ":")] = true
		}
	}
	for _, e := range ledger {
		if passes(e) {
			if m, ok := zzMapName(e.acc, remapPrefix, rules); ok {
				addKnown(m)
			}
		}
	}
	if closing {
		if m, ok := zzMapName("Equity:Equity", remapPrefix, rules); ok && (accPrefix == "" || strings.HasPrefix("Equity:Equity", accPrefix)) {
			addKnown(m)
		}
	}
	// walk the report rows
	var path []string
	cur := ""
	section := 0 // 0 A+L, 1 E+I+E, 2 delta
	for _, row := range rows[1:] {
		name := row[0].text
		if name != "" {
			switch name {
			case "Total (A+L)":
				section, cur, path = 1, "", nil
				continue
			case "Total (E+I+E)":
				section, cur, path = 2, "", nil
				continue
			case "Delta":
				cur = "Delta"
			default:
				if section == 2 {
					continue
				}
				// deepest ancestor-or-self of the current path under which `name` is a known account
				found := false
				for k := len(path); k >= 0; k-- {
					cand := strings.Join(append(append([]string{}, path[:k]...), name), ":")
					if known[cand] {
						path = append(append([]string{}, path[:k]...), name)
						cur = cand
						found = true
						break
					}
				}
				v.AssertExcept(found, "row-is-an-account-with-bookings-in-window", "C02-F12", suffixRule)
				if !found {
					cur = ""
				}
			}
		}
		if cur == "" || (section != 2 && name == "" && row[1].text == "") {
			continue
		}
		if cur == "Delta" && section != 2 {
			continue
		}
		com := row[1].text
		if com == "" {
			// a row without amounts
			continue
		}
		neg := section == 1
		for j := range ends {
			c := row[2+j]
			got := decimal.Zero
			if c.isNum {
				got = c.num
			}
			var want decimal.Decimal
			if cur == "Delta" {
				// Delta = sum over everything shown; hidden and filtered amounts therefore appear (only) here
				want = decimal.Zero
				for _, name := range zzSortedKeys(direct) {
					want = want.Add(expect(name, com, j))
				}
				v.AssertExcept(got.Equal(want), "delta-equals-sum-of-shown-rows", "C02-F12", suffixRule)
				continue
			}
			want = expect(cur, com, j)
			if neg {
				want = want.Neg()
			}
			v.AssertExcept(got.Equal(want), "cell-equals-ledger-sum", "C02-F12", suffixRule)
		}
	}
	v.Observe("rows", len(rows))
}

func zzSortedKeys(m map[string]bool) []string {
	var ks []string
	for k := range m {
		ks = append(ks, k)
	}
	for i := range ks {
		for j := i + 1; j < len(ks); j++ {
			if ks[j] < ks[i] {
				ks[i], ks[j] = ks[j], ks[i]
			}
		}
	}
	return ks
}
