package commands

import (
	"context"
	"strings"

	"github.com/sboehler/knut/lib/journal"
	"github.com/sboehler/knut/lib/model"
	"github.com/sboehler/knut/lib/syntax"
	"github.com/spf13/cobra"

	v "github.com/sboehler/knut/lib/zzverif"
)

// files of a journal spread over an include tree: root includes a.knut and b.knut
var zzSchedJournals = [][3]string{
	// directives of one kind never share a day across files
	0: {"include \"a.knut\"\ninclude \"b.knut\"\n",
		"2020-01-01 open Assets:A\n2020-01-01 open Equity:Equity\n2020-01-02 price USD 0.9 CHF\n\n2020-01-05 \"t\"\nEquity:Equity Assets:A 5 CHF\n",
		"2020-01-03 open Assets:B\n2020-01-04 price EUR 1.1 CHF\n\n2020-01-05 \"u\"\nEquity:Equity Assets:A 7 CHF\n\n2020-01-06 balance Assets:A 12 CHF\n"},
	// same-day prices, opens and assertions in both files
	1: {"include \"a.knut\"\ninclude \"b.knut\"\n",
		"2020-01-01 price USD 0.9 CHF\n2020-01-01 open Assets:A\n2020-01-03 balance Assets:A 0 CHF\n",
		"2020-01-01 price EUR 1.1 CHF\n2020-01-01 open Assets:B\n2020-01-03 balance Assets:B 0 CHF\n"},
}

// VerifPrintSchedule: C06 for journals spread over several files. The loader's
// tasks complete in an order chosen by forking (syntax.ZZLoadTree on the real
// parseRec); the files reach the journal in that order; print and balance run
// twice per path (each run with its own completion order) and must agree.
func VerifPrintSchedule() {
	jn := v.Param("journal")
	files := zzSchedJournals[jn]
	v.FSWrite("root.knut", files[0])
	v.FSWrite("a.knut", files[1])
	v.FSWrite("b.knut", files[2])
	zzSchedule = 0
	kind := v.Param("cmd")
	run := func() (string, error) {
		var out strings.Builder
		cmd := &cobra.Command{}
		cmd.SetOut(&out)
		cmd.SetErr(&out)
		cmd.SetContext(context.Background())
		if v.Symbolic() {
			v.Override("github.com/sboehler/knut/lib/journal.FromPath", func(ctx context.Context, reg *model.Registry, path string) (*journal.Builder, error) {
				fs, err := syntax.ZZLoadTree(path)
				if err != nil {
					return nil, err
				}
				// sequential core of model.FromStream / journal.FromModelStream: files in arrival order
				b := journal.New()
				for _, f := range fs {
					for _, d := range f.Directives {
						ms, err := model.ParseDirective(reg, d)
						if err != nil {
							return nil, err
						}
						for _, m := range ms {
							if err := b.Add(m); err != nil {
								return nil, err
							}
						}
					}
				}
				return b, nil
			})
			v.Override("github.com/sboehler/knut/lib/common/cpr.Seq", zzSeq)
		}
		var err error
		switch kind {
		case 0:
			var r printRunner
			err = r.execute(cmd, []string{v.FSPath("root.knut")})
		case 1:
			var r balanceRunner
			r.Multiperiod.ZZSet("", "2999-12-31", 0, 0, false)
			r.sortAlphabetically = true
			r.csv = true
			err = r.execute(cmd, []string{v.FSPath("root.knut")})
		case 2:
			var r transcodeRunner
			r.valuation.Set("CHF")
			err = r.execute(cmd, []string{v.FSPath("root.knut")})
		case 3: // check --write prints to the process's standard output
			r := checkRunner{write: true}
			o := v.CaptureStdout(func() { err = r.execute(cmd, []string{v.FSPath("root.knut")}) })
			return o, err
		}
		return out.String(), err
	}
	o1, e1 := run()
	o2, e2 := run()
	v.Assert(e1 == nil && e2 == nil, "journal-is-accepted")
	if e1 != nil || e2 != nil {
		return
	}
	sameDayAcrossFiles := jn == 1 && (kind == 0 || kind == 2) // print and transcode emit the directives themselves
	v.AssertExcept(o1 == o2, "same-output-on-every-run", "C06-F20", sameDayAcrossFiles)
}
