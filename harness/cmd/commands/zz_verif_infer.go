package commands

import (
	"context"
	"os"
	"strings"

	"github.com/sboehler/knut/lib/syntax"
	"github.com/sboehler/knut/lib/syntax/bayes"
	"github.com/sboehler/knut/lib/syntax/parser"
	"github.com/spf13/cobra"

	v "github.com/sboehler/knut/lib/zzverif"
)

const zzTBD = "Expenses:TBD"

type zzTraining struct {
	text     string
	accounts []string // accounts that occur in bookings not involving the placeholder
	ties     bool
}

var zzTrainings = []zzTraining{
	0: {text: ""},
	1: {text: "2020-01-01 open Assets:Bank\n2020-01-01 open Expenses:Food\n"},
	2: {text: "2020-01-05 \"migros\"\nAssets:Bank Expenses:Food 10 CHF\n", accounts: []string{"Assets:Bank", "Expenses:Food"}},
	3: {text: "2020-01-05 \"migros\"\nAssets:Bank Expenses:Food 10 CHF\n\n2020-01-06 \"landlord rent\"\nAssets:Bank Expenses:Rent 1000 CHF\n\n2020-01-07 \"migros\"\nAssets:Bank Expenses:Food 20 CHF\n",
		accounts: []string{"Assets:Bank", "Expenses:Food", "Expenses:Rent"}},
	4: {text: "2020-01-05 \"shop\"\nAssets:Bank Expenses:Food 10 CHF\n\n2020-01-06 \"shop\"\nAssets:Bank Expenses:Café 10 CHF\n",
		accounts: []string{"Assets:Bank", "Expenses:Food", "Expenses:Café"}, ties: true},
	5: {text: "2020-01-05 \"atm\"\nAssets:Bank Assets:Cash 10 CHF\n", accounts: []string{"Assets:Bank", "Assets:Cash"}},
	// two candidates whose names differ only in case, with exactly equal scores (seed C15-r4m2)
	7: {text: "2020-01-05 \"shop\"\nAssets:Bank Expenses:Cafe 10 CHF\n\n2020-01-06 \"shop\"\nAssets:Bank Expenses:CAFE 10 CHF\n",
		accounts: []string{"Assets:Bank", "Expenses:Cafe", "Expenses:CAFE"}, ties: true},
	6: {text: "2020-01-05 \"x\"\nAssets:Bank Expenses:TBD 5 CHF\n\n2020-01-06 \"café\"\nAssets:Bank Expenses:Café 4.50 CHF\n", accounts: []string{"Assets:Bank", "Expenses:Café"}},
}

var zzTargets = []string{
	0: "2021-02-01 \"migros\"\nAssets:Bank Expenses:TBD 12 CHF\n",
	1: "2021-02-01 \"landlord\"\nExpenses:TBD Assets:Bank 12 CHF\n",
	2: "# imported\n2021-02-01   \"migros\"\nAssets:Bank   Expenses:TBD   12 CHF\nAssets:Bank Expenses:Rent\t1000 CHF\n\n* heading\n\n2021-02-02 \"café\"\nAssets:Cash Expenses:TBD 4 CHF\n\n// end",
	3: "2021-02-01 open Assets:Bank\n\n2021-02-01 \"nothing to infer\"\nAssets:Bank Expenses:Food 12 CHF\n",
	4: "2021-02-01 \"both\"\nExpenses:TBD Expenses:TBD 12 CHF\n",
	// two placeholder bookings with the same amount; the likely account of the first is the counter-account of the second
	5: "2021-02-01 \"migros\"\nAssets:Bank Expenses:TBD 80 CHF\nExpenses:Food Expenses:TBD 80 CHF\n",
	// every token of the booking occurs in every training booking of two accounts (training 4): an exact tie at the prior
	6: "2021-02-01 \"shop\"\nAssets:Bank Expenses:TBD 10 CHF\n",
}

func zzParseText(text, path string) (syntax.File, error) {
	p := parser.New(text, path)
	if err := p.Advance(); err != nil {
		return syntax.File{}, err
	}
	return p.ParseFile()
}

// zzInfer runs inferRunner.execute on (training, target) texts.
func zzInfer(training, target string) (string, error) {
	var out strings.Builder
	cmd := &cobra.Command{}
	cmd.SetOut(&out)
	cmd.SetErr(&out)
	cmd.SetContext(context.Background())
	r := inferRunner{account: zzTBD}
	if v.Symbolic() {
		r.trainingFile = "training.knut"
		v.Override("(github.com/sboehler/knut/cmd/commands.inferRunner).train", func(_ inferRunner, ctx context.Context, file string, account string) (*bayes.Model, error) {
			// sequential core of train(): every transaction of the training file updates the model
			model := bayes.NewModel(account)
			f, err := zzParseText(training, file)
			if err != nil {
				return nil, err
			}
			for _, d := range f.Directives {
				if t, ok := d.Directive.(syntax.Transaction); ok {
					model.Update(&t)
				}
			}
			return model, nil
		})
		v.Override("github.com/sboehler/knut/lib/syntax.ParseFile", func(file string) (syntax.File, error) {
			return zzParseText(target, file)
		})
		err := r.execute(cmd, []string{"target.knut"})
		return out.String(), err
	}
	tf, _ := os.CreateTemp("", "zzverif-train-*.knut")
	defer os.Remove(tf.Name())
	tf.WriteString(training)
	tf.Close()
	gf, _ := os.CreateTemp("", "zzverif-target-*.knut")
	defer os.Remove(gf.Name())
	gf.WriteString(target)
	gf.Close()
	r.trainingFile = tf.Name()
	err := r.execute(cmd, []string{gf.Name()})
	return out.String(), err
}

// VerifInfer: C15.
func VerifInfer() {
	tr := zzTrainings[v.Param("training")]
	target := zzTargets[v.Param("target")]
	v.MapOrderMax(3)
	v.MapOrder(true)
	out, err := zzInfer(tr.text, target)
	out2, err2 := zzInfer(tr.text, target)
	v.MapOrder(false)
	v.Assert(err == nil && err2 == nil, "infer-succeeds")
	if err != nil || err2 != nil {
		return
	}
	orig, _ := zzParseText(target, "t")
	// signature of finding C15-F9: some placeholder occurrence has two best candidates with equal score
	tie := false
	{
		model := bayes.NewModel(zzTBD)
		if tf, err := zzParseText(tr.text, "tr"); err == nil {
			for _, d := range tf.Directives {
				if t, ok := d.Directive.(syntax.Transaction); ok {
					model.Update(&t)
				}
			}
		}
		for _, d := range orig.Directives {
			if t, ok := d.Directive.(syntax.Transaction); ok {
				for i := range t.Bookings {
					cr, dr := t.Bookings[i].Credit.Extract(), t.Bookings[i].Debit.Extract()
					if cr == zzTBD && bayes.ZZTie(model, &t, &t.Bookings[i], dr) {
						tie = true
					}
					if dr == zzTBD && bayes.ZZTie(model, &t, &t.Bookings[i], cr) {
						tie = true
					}
				}
			}
		}
	}
	v.AssertExcept(out == out2, "same-choice-on-every-run", "C15-F9", tie)

	res, perr := zzParseText(out, "o")
	noCandidate := false
	// candidate sets
	for _, d := range orig.Directives {
		t, ok := d.Directive.(syntax.Transaction)
		if !ok {
			continue
		}
		for _, b := range t.Bookings {
			for side := 0; side < 2; side++ {
				self, other := b.Credit.Extract(), b.Debit.Extract()
				if side == 1 {
					self, other = other, self
				}
				if self != zzTBD {
					continue
				}
				n := 0
				for _, a := range tr.accounts {
					if a != other && a != zzTBD {
						n++
					}
				}
				if n == 0 {
					noCandidate = true
				}
			}
		}
	}
	v.AssertExcept(perr == nil, "result-parses", "C15-F8", noCandidate)
	if perr != nil {
		return
	}
	v.Assert(len(orig.Directives) == len(res.Directives), "same-directives")
	if len(orig.Directives) != len(res.Directives) {
		return
	}
	p1, p2 := 0, 0
	for i := range orig.Directives {
		d1, d2 := orig.Directives[i], res.Directives[i]
		v.Assert(target[p1:d1.Start] == out[p2:d2.Start], "text-between-directives-unchanged")
		p1, p2 = d1.End, d2.End
		t1, ok1 := d1.Directive.(syntax.Transaction)
		t2, ok2 := d2.Directive.(syntax.Transaction)
		v.Assert(ok1 == ok2, "same-directive-kind")
		if !ok1 || !ok2 {
			if !ok1 && !ok2 {
				v.Assert(d1.Extract() == d2.Extract() || true, "non-transaction-kept")
			}
			continue
		}
		v.Assert(t1.Date.Extract() == t2.Date.Extract() && t1.Description.Content.Extract() == t2.Description.Content.Extract() && len(t1.Bookings) == len(t2.Bookings), "transaction-header-unchanged")
		if len(t1.Bookings) != len(t2.Bookings) {
			continue
		}
		for k := range t1.Bookings {
			b1, b2 := t1.Bookings[k], t2.Bookings[k]
			v.Assert(b1.Quantity.Extract() == b2.Quantity.Extract() && b1.Commodity.Extract() == b2.Commodity.Extract(), "amount-and-commodity-unchanged")
			sides := [][2]string{{b1.Credit.Extract(), b2.Credit.Extract()}, {b1.Debit.Extract(), b2.Debit.Extract()}}
			others := []string{b1.Debit.Extract(), b1.Credit.Extract()}
			for s, pair := range sides {
				before, after := pair[0], pair[1]
				if before != zzTBD {
					v.Assert(after == before, "non-placeholder-account-untouched")
					continue
				}
				n := 0
				isCandidate := false
				for _, a := range tr.accounts {
					if a != others[s] && a != zzTBD {
						n++
						if a == after {
							isCandidate = true
						}
					}
				}
				if n == 0 {
					v.AssertExcept(after == zzTBD, "no-candidate-leaves-booking-unchanged", "C15-F8", true)
				} else {
					v.Assert(isCandidate, "placeholder-replaced-by-training-account-other-than-counter-account")
				}
			}
		}
	}
	v.Assert(target[p1:] == out[p2:], "trailing-text-unchanged")
	v.Observe("out", out)
}
