package commands

import (
	"github.com/sboehler/knut/lib/journal"
	"github.com/sboehler/knut/lib/journal/check"
	"github.com/sboehler/knut/lib/model"
	"github.com/sboehler/knut/lib/model/posting"
	"github.com/sboehler/knut/lib/model/registry"
	"github.com/sboehler/knut/lib/model/transaction"
	"github.com/shopspring/decimal"
	"github.com/spf13/cobra"

	v "github.com/sboehler/knut/lib/zzverif"
)

func zzNewRegistry() *model.Registry { return registry.New() }

type zzSlot struct {
	kind, a, c, d int
	q             decimal.Decimal
}

var zzCheckAccountSets = [][]string{{"Assets:A", "Expenses:X"}, {"Assets:A", "Equity:E"}}
var zzCheckDays = []string{"2020-01-31", "2020-02-01"}
var zzCheckComms = []string{"C1", "C2"}

const (
	zzOpen = iota
	zzBooking
	zzAssert
	zzClose
)

// VerifReportProceeds: C04. Every report command proceeds on exactly the journals
// check accepts: balance (with and without a --from/--to window, valued or not)
// returns an error iff check does.
func VerifReportProceeds() {
	zzVerdictOnly = true
	defer func() { zzVerdictOnly = false }()
	VerifCheckIff()
}

var zzVerdictOnly bool

// VerifCheckIff: C04. k directive slots; kind per slot is a parameter
// (enumerated by the driver); account, commodity, day are choice variables;
// booked and asserted quantities are symbolic decimals.
func VerifCheckIff() {
	k := v.Param("slots")
	kinds := v.Param("kinds") // base-4 digits, slot 0 = least significant
	zzSchedule = 0
	ss := make([]zzSlot, k)
	for i := range ss {
		s := &ss[i]
		s.kind = (kinds >> (2 * i)) & 3
		s.a = v.Choice("acc", 2)
		s.d = v.Choice("day", 2)
		if s.kind == zzBooking || s.kind == zzAssert {
			s.c = v.Choice("com", 2)
			s.q = v.Decimal("q", 2)
		}
		if s.kind == zzAssert {
			s.a = 0 // assertions on non-A/L accounts are outside the property's iff
		}
	}
	zzCheckAccounts := zzCheckAccountSets[v.Param("accset")]
	build := func(reg *model.Registry) *journal.Builder {
		acc := []*model.Account{reg.Accounts().MustGet(zzCheckAccounts[0]), reg.Accounts().MustGet(zzCheckAccounts[1])}
		ctr := reg.Accounts().MustGet("Equity:Equity")
		com := []*model.Commodity{reg.Commodities().MustGet(zzCheckComms[0]), reg.Commodities().MustGet(zzCheckComms[1])}
		b := journal.New()
		b.Add(&model.Open{Date: zzDate("2019-12-31"), Account: ctr})
		if v.Param("preopen") == 1 {
			b.Add(&model.Open{Date: zzDate("2019-12-31"), Account: acc[0]})
			b.Add(&model.Open{Date: zzDate("2019-12-31"), Account: acc[1]})
		}
		for i := range ss {
			s := &ss[i]
			day := zzDate(zzCheckDays[s.d])
			switch s.kind {
			case zzOpen:
				b.Add(&model.Open{Date: day, Account: acc[s.a]})
			case zzClose:
				b.Add(&model.Close{Date: day, Account: acc[s.a]})
			case zzBooking:
				b.Add(transaction.Builder{Date: day, Description: "t",
					Postings: posting.Builder{Credit: ctr, Debit: acc[s.a], Commodity: com[s.c], Quantity: s.q}.Build()}.Build())
			case zzAssert:
				b.Add(&model.Assertion{Date: day, Balances: []model.Balance{{Account: acc[s.a], Commodity: com[s.c], Quantity: s.q}}})
			}
		}
		return b
	}
	var r checkRunner
	_, err := zzRun(build, func(cmd *cobra.Command, args []string) error { return r.execute(cmd, args) })
	if zzVerdictOnly {
		var br balanceRunner
		switch v.Param("window") {
		case 1:
			br.Multiperiod.ZZSet("2020-02-01", "2999-12-31", 0, 0, false)
		case 2:
			br.Multiperiod.ZZSet("", "2020-01-31", 0, 0, false)
		default:
			br.Multiperiod.ZZSet("", "2999-12-31", 0, 0, false)
		}
		br.sortAlphabetically = true
		_, berr := zzReport(&br, build)
		v.Assert((berr == nil) == (err == nil), "balance-proceeds-iff-check-accepts")
		return
	}

	// reference lifecycle model: by day; within a day opens -> bookings -> assertions -> closes, arrival order inside
	open := [2]bool{}
	if v.Param("preopen") == 1 {
		open = [2]bool{true, true}
	}
	var pos [2][2]decimal.Decimal
	has := [2][2]bool{}
	okRef := true
	badKind, badDay := -1, -1
	zeroOnAbsent := false
	for d := 0; d < 2 && okRef; d++ {
		for _, kind := range []int{zzOpen, zzBooking, zzAssert, zzClose} {
			for i := range ss {
				s := &ss[i]
				if s.d != d || s.kind != kind || !okRef {
					continue
				}
				fail := false
				switch kind {
				case zzOpen:
					if open[s.a] {
						fail = true
					} else {
						open[s.a] = true
					}
				case zzBooking:
					if !open[s.a] {
						fail = true
					} else if s.a == 0 {
						pos[s.a][s.c] = pos[s.a][s.c].Add(s.q)
						has[s.a][s.c] = true
					}
				case zzAssert:
					if !open[s.a] || !pos[s.a][s.c].Equal(s.q) {
						fail = true
					}
					if open[s.a] && !has[s.a][s.c] && s.q.IsZero() {
						zeroOnAbsent = true
					}
				case zzClose:
					if !open[s.a] || !pos[s.a][0].IsZero() || !pos[s.a][1].IsZero() {
						fail = true
					} else {
						open[s.a] = false
						has[s.a] = [2]bool{}
					}
				}
				if fail {
					okRef, badKind, badDay = false, kind, d
				}
			}
		}
	}
	v.AssertExcept((err == nil) == okRef, "accept-iff-well-formed", "C04-F1", zeroOnAbsent)
	if err != nil && !okRef {
		ce, isCE := err.(check.Error)
		v.Assert(isCE, "diagnostic-is-a-check-error")
		if isCE {
			gotKind, gotDay := -1, -1
			switch x := ce.Directive.(type) {
			case *model.Open:
				gotKind, gotDay = zzOpen, zzDayIndex(x.Date)
			case *model.Transaction:
				gotKind, gotDay = zzBooking, zzDayIndex(x.Date)
			case *model.Assertion:
				gotKind, gotDay = zzAssert, zzDayIndex(x.Date)
			case *model.Close:
				gotKind, gotDay = zzClose, zzDayIndex(x.Date)
			}
			v.AssertExcept(gotKind == badKind && gotDay == badDay, "diagnostic-names-first-offender", "C04-F1", zeroOnAbsent)
		}
	}
	v.Observe("accepted", err == nil)
}

func zzDayIndex(t interface{ Format(string) string }) int {
	s := t.Format("2006-01-02")
	for i, d := range zzCheckDays {
		if d == s {
			return i
		}
	}
	return -1
}
