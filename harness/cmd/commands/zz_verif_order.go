package commands

import (
	"github.com/sboehler/knut/lib/model"
	"github.com/spf13/cobra"

	v "github.com/sboehler/knut/lib/zzverif"
)

func zzSameRows(a, b [][]zzCell) bool {
	if len(a) != len(b) {
		return false
	}
	for i := range a {
		if len(a[i]) != len(b[i]) {
			return false
		}
		for j := range a[i] {
			x, y := a[i][j], b[i][j]
			if x.text != y.text || x.isNum != y.isNum {
				return false
			}
			if x.isNum && !x.num.Equal(y.num) {
				return false
			}
		}
	}
	return true
}

// VerifOrder: C05 kernel. The same directives arriving in every order give the
// same verdict, the same balance reports and the same printed journal.
func VerifOrder() {
	sh := zzShapes[v.Param("shape")]
	in := zzMakeInputs(sh, v.Param("mode"), v.Param("scale")) // mode 1: concrete quantities (needed for the printed text)
	perm := v.Perm("arrival", zzOwn(sh))
	canon := func(reg *model.Registry) []model.Directive { return zzShapeDirectives(reg, sh, in, nil) }
	permd := func(reg *model.Registry) []model.Directive { return zzShapeDirectives(reg, sh, in, perm) }
	flagSets := [][3]int{{0, 3, 0}, {1, 0, 1}} // (valuation, interval, schedule)
	if v.Param("mode") == 0 {
		flagSets = flagSets[v.Param("flagset") : v.Param("flagset")+1]
	}
	for _, flags := range flagSets {
		var r1, r2 balanceRunner
		for _, r := range []*balanceRunner{&r1, &r2} {
			if flags[0] == 1 {
				r.valuation.Set("V")
			}
			r.Multiperiod.ZZSet("", "2999-12-31", 0, 0, false)
			if flags[1] != 0 {
				r.Multiperiod.ZZSet("", "2999-12-31", 0, 3, true)
			}
			r.close = true
			r.sortAlphabetically = true
		}
		zzSchedule = flags[2]
		t1, e1 := zzReportDirs(&r1, canon)
		t2, e2 := zzReportDirs(&r2, permd)
		v.Assert((e1 == nil) == (e2 == nil), "same-accept-reject-verdict")
		if e1 == nil && e2 == nil {
			v.Assert(zzSameRows(t1, t2), "same-balance-report")
		}
	}
	// printed journal: this catalogue has at most one price / close per day and commodity pair, and
	// transactions are sorted by the printer, so the texts must be identical
	if v.Param("mode") == 0 {
		return // symbolic amounts cannot be padded by the printer (width unknown): print is compared in mode 1
	}
	zzSchedule = 0
	var p1, p2 printRunner
	o1, pe1 := zzRunDirs(canon, func(cmd *cobra.Command, args []string) error { return p1.execute(cmd, args) })
	o2, pe2 := zzRunDirs(permd, func(cmd *cobra.Command, args []string) error { return p2.execute(cmd, args) })
	v.Assert((pe1 == nil) == (pe2 == nil), "same-print-verdict")
	if pe1 == nil && pe2 == nil && v.Param("textcmp") == 1 {
		v.Assert(o1 == o2, "same-printed-journal")
	}
	v.Observe("ok", pe1 == nil)
}
