package swisscard

import (
	"encoding/csv"
	"strings"

	"github.com/sboehler/knut/lib/common/date"
	"github.com/sboehler/knut/lib/journal"
	"github.com/sboehler/knut/lib/model"
	"github.com/sboehler/knut/lib/model/registry"
	"github.com/shopspring/decimal"

	v "github.com/sboehler/knut/lib/zzverif"
)

const zzHeader = "Transaction Date, Posting Date, Card Number ,Billing Amount, Description, Merchant City , Merchant State , Merchant Zip , Reference Number , Debit/Credit Flag , SICMCC Code\n"

// VerifSwisscardRow: C13 (partial). One booking row of the older swisscard
// format: amount [-]CHF[d']ddd.dd with symbolic digits (thousands apostrophe
// for four integer digits).
func VerifSwisscardRow() {
	ni := v.Param("ni")
	whole := v.Digits("i", ni)
	frac := v.Digits("f", 2)
	shown := whole
	if ni == 4 {
		shown = whole[:1] + "'" + whole[1:]
	}
	neg := v.Choice("sign", 2) == 1
	field := "CHF" + shown + "." + frac
	plain := whole + "." + frac
	if neg {
		field = "-" + field
		plain = "-" + plain
	}
	row := "12.02.2020,13.02.2020,1234," + field + ",\"Café\",\"Zürich\",CHE,1111, \"42\",D,5411\n"
	reg := registry.New()
	acc := reg.Accounts().MustGet("Liabilities:Swisscard")
	p := parser{registry: reg, reader: csv.NewReader(strings.NewReader(zzHeader + row)), account: acc, builder: journal.New()}
	var err error
	stdout := v.CaptureStdout(func() { err = p.parse() })
	v.Assert(stdout == "", "importer-writes-nothing-but-the-journal")
	v.Assert(err == nil, "well-formed-row-is-imported")
	if err != nil {
		return
	}
	var trx []*model.Transaction
	for _, d := range p.builder.Build().Days {
		trx = append(trx, d.Transactions...)
		v.Assert(len(d.Prices) == 0 && len(d.Assertions) == 0 && len(d.Openings) == 0 && len(d.Closings) == 0, "nothing-else-is-emitted")
	}
	v.Assert(len(trx) == 1, "exactly-one-transaction-per-booking-row")
	if len(trx) != 1 {
		return
	}
	t := trx[0]
	v.Assert(t.Date.Equal(date.Date(2020, 2, 12)), "transaction-on-the-row-date")
	v.Assert(strings.HasPrefix(t.Description, "1234 Café Zürich"), "description-is-the-row-text")
	want, _ := decimal.NewFromString(plain)
	effect := decimal.Zero
	for _, po := range t.Postings {
		v.Assert(po.Commodity.Name() == "CHF", "booked-in-the-currency-of-the-row")
		if po.Account == acc {
			effect = effect.Add(po.Quantity)
		}
	}
	v.Assert(effect.Equal(want.Neg()), "effect-on-import-account-is-the-signed-row-amount")
	v.Observe("effect", effect)
}
