package revolut2

import (
	"encoding/csv"
	"strings"
	"time"

	"github.com/sboehler/knut/lib/common/date"
	"github.com/sboehler/knut/lib/journal"
	"github.com/sboehler/knut/lib/model"
	"github.com/sboehler/knut/lib/model/registry"
	"github.com/shopspring/decimal"

	v "github.com/sboehler/knut/lib/zzverif"
)

const zzHeader = "Type,Product,Started Date,Completed Date,Description,Amount,Fee,Currency,State,Balance\n"

func zzParser(text string) (*parser, *model.Account) {
	reg := registry.New()
	acc := reg.Accounts().MustGet("Assets:Revolut")
	return &parser{registry: reg, reader: csv.NewReader(strings.NewReader(text)), account: acc,
		feeAccount: reg.Accounts().MustGet("Expenses:Fees"), builder: journal.New()}, acc
}

// VerifRevolut2Row: C13 (partial). One completed row; amount (signed), fee and
// balance have symbolic digits.
func VerifRevolut2Row() {
	amt := v.Digits("a", v.Param("ni")) + "." + v.Digits("af", 2)
	fee := v.Digits("f", 1) + "." + v.Digits("ff", 2)
	bal := v.Digits("b", 3) + "." + v.Digits("bf", 2)
	neg := v.Choice("sign", 2) == 0
	signed := amt
	if neg {
		signed = "-" + amt
	}
	row := "CARD_PAYMENT,Current,2020-07-01 16:35:02,2020-07-02 05:27:33,Café Zürich," + signed + "," + fee + ",CHF,COMPLETED," + bal + "\n"
	p, acc := zzParser(zzHeader + row)
	var err error
	stdout := v.CaptureStdout(func() { err = p.parse() })
	v.Assert(stdout == "", "importer-writes-nothing-but-the-journal")
	v.Assert(err == nil, "well-formed-row-is-imported")
	if err != nil {
		return
	}
	var trx []*model.Transaction
	var asserts []*model.Assertion
	for _, d := range p.builder.Build().Days {
		trx = append(trx, d.Transactions...)
		asserts = append(asserts, d.Assertions...)
		v.Assert(len(d.Prices) == 0 && len(d.Openings) == 0 && len(d.Closings) == 0, "nothing-else-is-emitted")
	}
	v.Assert(len(trx) == 1, "exactly-one-transaction-per-booking-row")
	if len(trx) != 1 {
		return
	}
	t := trx[0]
	v.Assert(t.Date.Equal(date.Date(2020, 7, 2)), "transaction-on-the-row-completed-date")
	v.Assert(t.Description == "Café Zürich", "description-is-the-row-text")
	a, _ := decimal.NewFromString(signed)
	f, _ := decimal.NewFromString(fee)
	b, _ := decimal.NewFromString(bal)
	effect := decimal.Zero
	for _, po := range t.Postings {
		v.Assert(po.Commodity.Name() == "CHF", "row-currency")
		if po.Account == acc {
			effect = effect.Add(po.Quantity)
		}
	}
	v.Assert(effect.Equal(a.Sub(f)), "effect-on-import-account-is-the-signed-row-amount-less-fee")
	// the balance the statement carries becomes one assertion on the row's date
	v.Assert(len(asserts) == 1, "one-balance-assertion-per-date-and-currency")
	if len(asserts) == 1 {
		x := asserts[0]
		v.Assert(x.Date.Equal(date.Date(2020, 7, 2)) && len(x.Balances) == 1 && x.Balances[0].Account == acc &&
			x.Balances[0].Commodity.Name() == "CHF" && x.Balances[0].Quantity.Equal(b), "assertion-carries-the-row-balance")
	}
	v.Observe("effect", effect)
}

// VerifRevolut2Deterministic: C06 kernel for `knut import`. A statement with
// several currencies on one completed date; the hash-map iteration order of the
// balance map is forked; the printed output of two runs must agree.
func VerifRevolut2Deterministic() {
	n := v.Param("currencies")
	text := zzHeader
	for i, cur := range []string{"CHF", "EUR", "USD"}[:n] {
		text += "CARD_PAYMENT,Current,2020-07-01 16:35:02,2020-07-02 05:27:33,shop,-1" + string(rune('0'+i)) + ".00,0.00," + cur + ",COMPLETED,5" + string(rune('0'+i)) + ".00\n"
	}
	if v.Param("products") == 2 {
		// a second product (savings) in the first currency, completed on the same day
		text += "TRANSFER,Savings,2020-07-01 17:00:00,2020-07-02 06:00:00,to savings,-5.00,0.00,CHF,COMPLETED,95.00\n"
	}
	run := func() string {
		v.MapOrderMax(3)
		v.MapOrder(true)
		p, _ := zzParser(text)
		var err error
	stdout := v.CaptureStdout(func() { err = p.parse() })
	v.Assert(stdout == "", "importer-writes-nothing-but-the-journal")
		v.MapOrder(false)
		if err != nil {
			return "error"
		}
		// canonical text of the builder content in arrival order (assertions keep arrival order when printed)
		var sb strings.Builder
		for _, d := range p.builder.Build().Days {
			for _, a := range d.Assertions {
				sb.WriteString(a.Balances[0].Commodity.Name() + "=" + a.Balances[0].Quantity.String() + " ")
			}
		}
		return sb.String()
	}
	o1, o2 := run(), run()
	v.AssertExcept(o1 == o2, "same-output-on-every-run", "C06-F16", n >= 2)
}

// VerifRevolut2Statement: C13 for a statement of several rows. Every row picks
// one of two completed dates and one of two currencies; the balances have
// symbolic digits. The import holds one transaction per row and exactly the
// balance assertions the statement carries: one per (date, currency) that has a
// row, with the balance of the last such row.
func VerifRevolut2Statement() {
	n := v.Param("rows")
	dates := []string{"2020-07-02", "2020-07-05"}
	curs := []string{"CHF", "EUR"}
	type key struct{ d, c int }
	var last [2][2]string
	var seen [2][2]bool
	var order []key
	text := zzHeader
	for i := 0; i < n; i++ {
		row := string(rune('0' + i))
		k := key{v.Choice("date"+row, 2), v.Choice("cur"+row, 2)}
		bal := v.Digits("b"+row, 2) + "." + v.Digits("bf"+row, 1) + "0"
		if !seen[k.d][k.c] {
			order = append(order, k)
			seen[k.d][k.c] = true
		}
		last[k.d][k.c] = bal
		text += "CARD_PAYMENT,Current,2020-07-01 16:35:02," + dates[k.d] + " 05:27:33,shop,-1" + string(rune('0'+i)) + ".00,0.00," + curs[k.c] + ",COMPLETED," + bal + "\n"
	}
	p, acc := zzParser(text)
	var err error
	stdout := v.CaptureStdout(func() { err = p.parse() })
	v.Assert(stdout == "", "importer-writes-nothing-but-the-journal")
	v.Assert(err == nil, "well-formed-statement-is-imported")
	if err != nil {
		return
	}
	ntrx := 0
	var asserts []*model.Assertion
	for _, d := range p.builder.Build().Days {
		ntrx += len(d.Transactions)
		asserts = append(asserts, d.Assertions...)
		v.Assert(len(d.Prices) == 0 && len(d.Openings) == 0 && len(d.Closings) == 0, "nothing-else-is-emitted")
	}
	v.Assert(ntrx == n, "exactly-one-transaction-per-booking-row")
	v.Assert(len(asserts) == len(order), "only-the-balance-assertions-the-statement-carries")
	for _, k := range order {
		want, _ := decimal.NewFromString(last[k.d][k.c])
		found := 0
		for _, x := range asserts {
			if len(x.Balances) == 1 && x.Date.Equal(zzDay(dates[k.d])) && x.Balances[0].Commodity.Name() == curs[k.c] {
				found++
				v.Assert(x.Balances[0].Account == acc && x.Balances[0].Quantity.Equal(want), "assertion-carries-the-last-row-balance")
			}
		}
		v.Assert(found == 1, "one-balance-assertion-per-date-and-currency")
	}
}

func zzDay(s string) time.Time {
	t, err := time.Parse("2006-01-02", s)
	if err != nil {
		panic(err)
	}
	return t
}
