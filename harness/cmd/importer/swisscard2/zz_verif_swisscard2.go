package swisscard

import (
	"encoding/csv"
	"strings"

	"github.com/sboehler/knut/lib/common/date"
	"github.com/sboehler/knut/lib/journal"
	"github.com/sboehler/knut/lib/model"
	"github.com/sboehler/knut/lib/model/registry"
	"github.com/shopspring/decimal"

	v "github.com/sboehler/knut/lib/zzverif"
)

const zzHeader = "Transaktionsdatum,Beschreibung,Händler,Kartennummer,Währung,Betrag,Fremdwährung,Betrag in Fremdwährung,Debit/Kredit,Status,Händlerkategorie,Registrierte Kategorie\n"

// VerifSwisscard2Row: C13 (partial). One booking row of the newer swisscard
// format; the digits and the sign of the amount are symbolic. A charge
// (positive amount) is a credit of the card account.
func VerifSwisscard2Row() {
	amt := v.Digits("i", v.Param("ni")) + "." + v.Digits("f", 2)
	if v.Choice("sign", 2) == 1 {
		amt = "-" + amt
	}
	cur := []string{"CHF", "EUR"}[v.Choice("cur", 2)]
	row := "\"06.07.2024\",\"Café Zürich\",\"aa\",\"11\",\"" + cur + "\",\"" + amt + "\",\"\",\"\",\"Belastung\",\"Gebucht\",\"Familie & Haushalt\",\"STORES\"\n"
	reg := registry.New()
	acc := reg.Accounts().MustGet("Liabilities:Swisscard")
	p := parser{registry: reg, reader: csv.NewReader(strings.NewReader(zzHeader + row)), account: acc, builder: journal.New()}
	var err error
	stdout := v.CaptureStdout(func() { err = p.parse() })
	v.Assert(stdout == "", "importer-writes-nothing-but-the-journal")
	v.Assert(err == nil, "well-formed-row-is-imported")
	if err != nil {
		return
	}
	var trx []*model.Transaction
	for _, d := range p.builder.Build().Days {
		trx = append(trx, d.Transactions...)
		v.Assert(len(d.Prices) == 0 && len(d.Assertions) == 0 && len(d.Openings) == 0 && len(d.Closings) == 0, "nothing-else-is-emitted")
	}
	v.Assert(len(trx) == 1, "exactly-one-transaction-per-booking-row")
	if len(trx) != 1 {
		return
	}
	t := trx[0]
	v.Assert(t.Date.Equal(date.Date(2024, 7, 6)), "transaction-on-the-row-date")
	v.Assert(strings.HasPrefix(t.Description, "Café Zürich / aa / "), "description-is-the-row-text")
	want, _ := decimal.NewFromString(amt)
	effect := decimal.Zero
	for _, po := range t.Postings {
		v.Assert(po.Commodity.Name() == cur, "booked-in-the-currency-of-the-row")
		if po.Account == acc {
			effect = effect.Add(po.Quantity)
		}
	}
	v.Assert(effect.Equal(want.Neg()), "effect-on-import-account-is-the-signed-row-amount")
	v.Observe("effect", effect)
}
