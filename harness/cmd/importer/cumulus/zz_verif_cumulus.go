package cumulus

import (
	"strings"

	"github.com/sboehler/knut/lib/common/date"
	"github.com/sboehler/knut/lib/model/registry"
	"github.com/shopspring/decimal"

	v "github.com/sboehler/knut/lib/zzverif"
)

// VerifCumulusRow: C13 (partial). One booking row of a cumulus statement, the
// digits of the amount symbolic (with thousands apostrophe), in either the
// charge (Belastung) or the credit (Gutschrift) column.
func VerifCumulusRow() {
	ni := v.Param("ni")
	whole, frac := v.Digits("i", ni), v.Digits("f", 2)
	amountText := whole + "." + frac
	if ni > 3 {
		amountText = whole[:ni-3] + "'" + whole[ni-3:] + "." + frac
	}
	charge := v.Choice("column", 2) == 0
	row := "22.08.2020,24.08.2020,Shop AG Zürich,"
	if charge {
		row += "," + amountText
	} else {
		row += amountText + ","
	}
	text := "Einkaufs-Datum,Verbucht am,Beschreibung,Gutschrift CHF,Belastung CHF\n" + row + "\n"
	reg := registry.New()
	acc := reg.Accounts().MustGet("Liabilities:Cumulus")
	p := parser{registry: reg, account: acc}
	trx, err := p.parse(strings.NewReader(text))
	v.Assert(err == nil, "well-formed-row-is-imported")
	if err != nil {
		return
	}
	v.Assert(len(trx) == 1, "exactly-one-transaction-per-booking-row")
	if len(trx) != 1 {
		return
	}
	t := trx[0]
	v.Assert(t.Date.Equal(date.Date(2020, 8, 22)), "transaction-on-the-row-date")
	v.Assert(t.Description == "Shop AG Zürich", "description-is-the-row-text")
	want, _ := decimal.NewFromString(whole + "." + frac)
	if charge {
		want = want.Neg()
	}
	effect := decimal.Zero
	for _, po := range t.Postings {
		v.Assert(po.Commodity.Name() == "CHF", "row-currency")
		if po.Account == acc {
			effect = effect.Add(po.Quantity)
		}
	}
	v.Assert(len(t.Postings) == 2, "one-booking")
	v.Assert(effect.Equal(want), "effect-on-import-account-is-the-signed-row-amount")
	v.Observe("effect", effect)
}
