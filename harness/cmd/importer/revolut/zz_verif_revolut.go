package revolut

import (
	"encoding/csv"
	"strings"

	"github.com/sboehler/knut/lib/common/date"
	"github.com/sboehler/knut/lib/journal"
	"github.com/sboehler/knut/lib/model"
	"github.com/sboehler/knut/lib/model/registry"
	"github.com/shopspring/decimal"

	v "github.com/sboehler/knut/lib/zzverif"
)

const zzHeader = "Completed Date;Reference;Paid Out (EUR);Paid In (EUR);Exchange Out;Exchange In; Balance (EUR);Exchange Rate;Category\n"

// VerifRevolutRow: C13 (partial). One row of the older revolut format: paid
// out, paid in, or a currency sale; the digits of the amount, of the balance
// and of the exchanged amount are symbolic.
func VerifRevolutRow() {
	ni := v.Param("ni")
	whole := v.Digits("i", ni)
	shown := whole
	if ni == 4 {
		shown = whole[:1] + "'" + whole[1:] // thousands apostrophe
	}
	amt, plain := shown+"."+v.Digits("f", 2), ""
	plain = whole + amt[len(shown):]
	bal := v.Digits("b", 3) + "." + v.Digits("bf", 2)
	other := v.Digits("o", 2) + "." + v.Digits("of", 2)
	kind := v.Choice("kind", 4) // 0 paid out, 1 paid in, 2 sold EUR to CHF, 3 card payment abroad (annotated with the foreign amount)
	var row string
	switch kind {
	case 0:
		row = "17 Aug 2020;Café  Zürich; " + amt + ";;;; " + bal + "; ;Transport\n"
	case 1:
		row = "17 Aug 2020;Café  Zürich;; " + amt + ";;; " + bal + "; ;Transport\n"
	case 2:
		row = "17 Aug 2020;Sold EUR to CHF; " + amt + ";;CHF  " + other + ";; " + bal + ";FX-rate 1.08;General\n"
	case 3:
		row = "17 Aug 2020;Amazon US; " + amt + ";;CHF  " + other + ";; " + bal + ";FX-rate 1.08;Shopping\n"
	}
	reg := registry.New()
	acc := reg.Accounts().MustGet("Assets:Revolut")
	p := parser{registry: reg, reader: csv.NewReader(strings.NewReader(zzHeader + row)), account: acc, builder: journal.New()}
	var err error
	stdout := v.CaptureStdout(func() { err = p.parse() })
	v.Assert(stdout == "", "importer-writes-nothing-but-the-journal")
	v.Assert(err == nil, "well-formed-row-is-imported")
	if err != nil {
		return
	}
	var trx []*model.Transaction
	var asserts []*model.Assertion
	for _, d := range p.builder.Build().Days {
		trx = append(trx, d.Transactions...)
		asserts = append(asserts, d.Assertions...)
		v.Assert(len(d.Prices) == 0 && len(d.Openings) == 0 && len(d.Closings) == 0, "nothing-else-is-emitted")
	}
	v.Assert(len(trx) == 1, "exactly-one-transaction-per-booking-row")
	if len(trx) != 1 {
		return
	}
	t := trx[0]
	v.Assert(t.Date.Equal(date.Date(2020, 8, 17)), "transaction-on-the-row-date")
	if kind < 2 {
		v.Assert(t.Description == "Café Zürich Transport", "description-is-the-row-text")
	}
	a, _ := decimal.NewFromString(plain)
	o, _ := decimal.NewFromString(other)
	b, _ := decimal.NewFromString(bal)
	eur, chf := decimal.Zero, decimal.Zero
	for _, po := range t.Postings {
		if po.Account != acc {
			continue
		}
		switch po.Commodity.Name() {
		case "EUR":
			eur = eur.Add(po.Quantity)
		case "CHF":
			chf = chf.Add(po.Quantity)
		default:
			v.Assert(false, "row-currency")
		}
	}
	switch kind {
	case 0, 3:
		v.Assert(eur.Equal(a.Neg()) && chf.IsZero(), "effect-on-import-account-is-the-signed-row-amount")
	case 1:
		v.Assert(eur.Equal(a) && chf.IsZero(), "effect-on-import-account-is-the-signed-row-amount")
	case 2:
		v.Assert(eur.Equal(a.Neg()) && chf.Equal(o), "currency-sale-books-both-legs")
	}
	v.Assert(len(asserts) == 1, "one-balance-assertion-per-date")
	if len(asserts) == 1 {
		x := asserts[0]
		v.Assert(x.Date.Equal(date.Date(2020, 8, 17)) && len(x.Balances) == 1 && x.Balances[0].Account == acc &&
			x.Balances[0].Commodity.Name() == "EUR" && x.Balances[0].Quantity.Equal(b), "assertion-carries-the-row-balance")
	}
	v.Observe("eur", eur)
}
