package swissquote

import (
	"encoding/csv"
	"strings"

	"github.com/sboehler/knut/lib/common/date"
	"github.com/sboehler/knut/lib/journal"
	"github.com/sboehler/knut/lib/model"
	"github.com/sboehler/knut/lib/model/registry"
	"github.com/shopspring/decimal"

	v "github.com/sboehler/knut/lib/zzverif"
)

const zzHeader = "Datum;Auftrag #;Transaktionen;Symbol;Name;ISIN;Anzahl;Stückpreis;Kosten;Aufgelaufene Zinsen;Nettobetrag;Saldo;Währung\n"

// VerifSwissquoteRow: C13 (partial). One statement row (for a currency exchange:
// the pair of rows) of each kind the importer knows; the digits of the net
// amount, of the costs/tax and of the traded quantity are symbolic.
func VerifSwissquoteRow() {
	kind := v.Param("kind")
	ni := v.Param("ni")
	whole := v.Digits("n", ni)
	shown := whole
	if ni == 4 {
		shown = whole[:1] + "'" + whole[1:]
	}
	frac := v.Digits("nf", 2)
	netAbs, netTxt := whole+"."+frac, shown+"."+frac
	fee := v.Digits("c", 2) + "." + v.Digits("cf", 2)
	qty := v.Digits("q", 2) + ".0"
	var rows string
	neg := false
	switch kind {
	case 0: // purchase: the net amount is negative
		neg = true
		rows = "09-10-2020 12:17:42;76396333;Kauf;VWRL;Vanguard All World;IE00B3RBWM25;" + qty + ";87.60;" + fee + ";0.00;-" + netTxt + ";85.12;CHF\n"
	case 1: // sale
		rows = "09-10-2020 12:17:42;76396333;Verkauf;VWRL;Vanguard All World;IE00B3RBWM25;" + qty + ";87.60;" + fee + ";0.00;" + netTxt + ";85.12;CHF\n"
	case 2: // dividend: gross amount in the price column, withholding tax in the cost column
		rows = "09-10-2020 12:17:42;76396333;Dividende;VWRL;Vanguard All World;IE00B3RBWM25;8.0;" + netTxt + ";" + fee + ";0.00;1.00;85.12;USD\n"
	case 3:
		neg = true
		rows = "09-10-2020 12:17:42;00000000;Depotgebühren;;;;1.0;0.00;0.00;0.00;-" + netTxt + ";85.12;CHF\n"
	case 4:
		rows = "09-10-2020 12:17:42;00000000;Einzahlung;;;;1.0;0.00;0.00;0.00;" + netTxt + ";85.12;CHF\n"
	case 5:
		rows = "09-10-2020 12:17:42;00000000;Zins;;;;1.0;0.00;0.00;0.00;" + netTxt + ";85.12;EUR\n"
	case 6: // a transaction type the importer does not know: booked against the placeholder account
		neg = true
		rows = "09-10-2020 12:17:42;00000000;Sonstiges;;;;1.0;0.00;0.00;0.00;-" + netTxt + ";85.12;CHF\n"
	case 7: // currency exchange: a credit row and a debit row
		rows = "09-10-2020 12:13:40;00000000;Forex-Gutschrift;;;;1.0;830.07;0.00;0.00;" + netTxt + ";798.82;CHF\n" +
			"09-10-2020 12:13:40;00000000;Forex-Belastung;;;;1.0;830.07;0.00;0.00;-" + fee + ";10.00;USD\n"
	}
	{
		// a purchase costs more than its fees, a sale yields more than nothing: net amount + costs is
		// negative for a purchase and positive for a sale (the statement's own arithmetic)
		n0, _ := decimal.NewFromString(netAbs)
		f0, _ := decimal.NewFromString(fee)
		switch kind {
		case 0:
			v.Assume(n0.GreaterThan(f0))
		case 1:
			v.Assume(n0.Add(f0).IsPositive())
		}
	}
	reg := registry.New()
	acc := reg.Accounts().MustGet("Assets:Swissquote")
	p := parser{registry: reg, reader: csv.NewReader(strings.NewReader(zzHeader + rows)), builder: journal.New(), account: acc,
		dividend: reg.Accounts().MustGet("Income:Dividends"), tax: reg.Accounts().MustGet("Expenses:Tax"), fee: reg.Accounts().MustGet("Expenses:Fees"),
		interest: reg.Accounts().MustGet("Income:Interest"), trading: reg.Accounts().MustGet("Equity:Trading")}
	var err error
	stdout := v.CaptureStdout(func() { err = p.parse() })
	v.Assert(stdout == "", "importer-writes-nothing-but-the-journal")
	v.Assert(err == nil, "well-formed-row-is-imported")
	if err != nil {
		return
	}
	var trx []*model.Transaction
	for _, d := range p.builder.Build().Days {
		trx = append(trx, d.Transactions...)
		v.Assert(len(d.Prices) == 0 && len(d.Assertions) == 0 && len(d.Openings) == 0 && len(d.Closings) == 0, "nothing-else-is-emitted")
	}
	v.Assert(len(trx) == 1, "exactly-one-transaction-per-booking-row")
	if len(trx) != 1 {
		return
	}
	t := trx[0]
	v.Assert(t.Date.Equal(date.Date(2020, 10, 9)), "transaction-on-the-row-date")
	net, _ := decimal.NewFromString(netAbs)
	if neg {
		net = net.Neg()
	}
	f, _ := decimal.NewFromString(fee)
	q, _ := decimal.NewFromString(qty)
	effect := map[string]decimal.Decimal{}
	for _, po := range t.Postings {
		if po.Account == acc {
			effect[po.Commodity.Name()] = effect[po.Commodity.Name()].Add(po.Quantity)
		}
	}
	switch kind {
	case 0:
		v.Assert(effect["CHF"].Equal(net) && effect["VWRL"].Equal(q), "purchase-books-net-amount-and-quantity")
	case 1:
		v.Assert(effect["CHF"].Equal(net) && effect["VWRL"].Equal(q.Neg()), "sale-books-net-amount-and-quantity")
	case 2:
		v.Assert(effect["USD"].Equal(net.Sub(f)), "dividend-books-gross-amount-less-tax")
	case 3, 4, 6:
		v.Assert(effect["CHF"].Equal(net), "effect-on-import-account-is-the-signed-row-amount")
	case 5:
		v.Assert(effect["EUR"].Equal(net), "effect-on-import-account-is-the-signed-row-amount")
	case 7:
		v.Assert(effect["CHF"].Equal(net) && effect["USD"].Equal(f.Neg()), "currency-exchange-books-both-legs")
	}
	v.Observe("n", len(t.Postings))
}
