package supercard

import (
	"encoding/csv"
	"strings"

	"github.com/sboehler/knut/lib/common/date"
	"github.com/sboehler/knut/lib/journal"
	"github.com/sboehler/knut/lib/model"
	"github.com/sboehler/knut/lib/model/registry"
	"github.com/shopspring/decimal"

	v "github.com/sboehler/knut/lib/zzverif"
)

// VerifSupercardRow: C13 (partial). One booking row, amount digits symbolic,
// purchase currency possibly different from the billing currency.
func VerifSupercardRow() {
	whole, frac := v.Digits("i", v.Param("ni")), v.Digits("f", 2)
	amt := whole + "." + frac
	charge := v.Choice("column", 2) == 0
	origCur := []string{"CHF", "EUR"}[v.Choice("orig", 2)]
	row := "1425 0000 0000;1111 2222 3333 4444;OWNER;09.05.2021;Café   Bar;Restaurants;12.50;" + origCur + "; ;CHF;"
	if charge {
		row += amt + "; ;10.05.2021"
	} else {
		row += " ;" + amt + ";10.05.2021"
	}
	text := "sep=;\nKontonummer;Kartennummer;Konto-/Karteninhaber;Einkaufsdatum;Buchungstext;Branche;Betrag;Originalwährung;Kurs;Währung;Belastung;Gutschrift;Buchung\n" + row + "\n"
	reg := registry.New()
	acc := reg.Accounts().MustGet("Liabilities:Supercard")
	p := parser{registry: reg, reader: csv.NewReader(strings.NewReader(text)), account: acc, builder: journal.New()}
	var err error
	stdout := v.CaptureStdout(func() { err = p.parse() })
	v.Assert(stdout == "", "importer-writes-nothing-but-the-journal")
	v.Assert(err == nil, "well-formed-row-is-imported")
	if err != nil {
		return
	}
	var trx []*model.Transaction
	for _, d := range p.builder.Build().Days {
		trx = append(trx, d.Transactions...)
		v.Assert(len(d.Prices) == 0 && len(d.Assertions) == 0 && len(d.Openings) == 0 && len(d.Closings) == 0, "nothing-else-is-emitted")
	}
	v.Assert(len(trx) == 1, "exactly-one-transaction-per-booking-row")
	if len(trx) != 1 {
		return
	}
	t := trx[0]
	v.Assert(t.Date.Equal(date.Date(2021, 5, 9)), "transaction-on-the-row-date")
	want, _ := decimal.NewFromString(amt)
	if charge {
		want = want.Neg()
	}
	effect := decimal.Zero
	for _, po := range t.Postings {
		v.Assert(po.Commodity.Name() == "CHF", "booked-in-the-billing-currency-of-the-row")
		if po.Account == acc {
			effect = effect.Add(po.Quantity)
		}
	}
	v.Assert(effect.Equal(want), "effect-on-import-account-is-the-signed-row-amount")
	v.Observe("effect", effect)
}
