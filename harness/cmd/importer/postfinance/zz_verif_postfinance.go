package postfinance

import (
	"encoding/csv"
	"strings"

	"github.com/sboehler/knut/lib/common/date"
	"github.com/sboehler/knut/lib/journal"
	"github.com/sboehler/knut/lib/model"
	"github.com/sboehler/knut/lib/model/registry"
	"github.com/shopspring/decimal"

	v "github.com/sboehler/knut/lib/zzverif"
)

// VerifPostfinanceRow: C13 (partial). One booking row; amount digits symbolic;
// booking date and value date differ.
func VerifPostfinanceRow() {
	whole, frac := v.Digits("i", v.Param("ni")), v.Digits("f", 2)
	amt := whole + "." + frac
	credit := v.Choice("column", 2) == 0
	row := "29.02.2024;Miete ;"
	if credit {
		row += amt + ";"
	} else {
		row += ";-" + amt
	}
	row += ";label;cat;01.03.2024;796.44"
	text := "Buchungsart:;=\"Alle Buchungen\"\nKonto:;=\"CH4609000000877991229\"\nWährung:;=\"EUR\"\n\nBuchungsdatum;Avisierungstext;Gutschrift in CHF;Lastschrift in CHF;Label;Kategorie;Valuta;Saldo in CHF\n\n" + row + "\n\nDisclaimer:\nx\n"
	reg := registry.New()
	acc := reg.Accounts().MustGet("Assets:Postfinance")
	p := Parser{registry: reg, reader: csv.NewReader(strings.NewReader(text)), account: acc, builder: journal.New()}
	var err error
	stdout := v.CaptureStdout(func() { err = p.parse() })
	v.Assert(stdout == "", "importer-writes-nothing-but-the-journal")
	v.Assert(err == nil, "well-formed-statement-is-imported")
	if err != nil {
		return
	}
	var trx []*model.Transaction
	for _, d := range p.builder.Build().Days {
		trx = append(trx, d.Transactions...)
	}
	v.Assert(len(trx) == 1, "exactly-one-transaction-per-booking-row")
	if len(trx) != 1 {
		return
	}
	t := trx[0]
	v.Assert(t.Date.Equal(date.Date(2024, 2, 29)), "transaction-on-the-row-booking-date")
	want, _ := decimal.NewFromString(amt)
	if !credit {
		want = want.Neg()
	}
	effect := decimal.Zero
	for _, po := range t.Postings {
		v.Assert(po.Commodity.Name() == "EUR", "statement-currency")
		if po.Account == acc {
			effect = effect.Add(po.Quantity)
		}
	}
	v.Assert(effect.Equal(want), "effect-on-import-account-is-the-signed-row-amount")
	v.Observe("effect", effect)
}
