package wise

import (
	"encoding/csv"
	"strings"

	"github.com/sboehler/knut/lib/common/date"
	"github.com/sboehler/knut/lib/journal"
	"github.com/sboehler/knut/lib/model"
	"github.com/sboehler/knut/lib/model/registry"
	"github.com/shopspring/decimal"

	v "github.com/sboehler/knut/lib/zzverif"
)

const zzWiseHeader = `ID,Status,Direction,"Created on","Finished on","Source fee amount","Source fee currency","Target fee amount","Target fee currency","Source name","Source amount (after fees)","Source currency","Target name","Target amount (after fees)","Target currency","Exchange rate",Reference,Batch` + "\n"

// VerifWiseRow: C13 (partial). One same-currency row with a source fee and a
// target fee; all three amounts have symbolic digits; direction IN or OUT.
func VerifWiseRow() {
	ni := v.Param("ni")
	amt := v.Digits("a", ni) + "." + v.Digits("af", 2)
	f1 := v.Digits("s", 1) + "." + v.Digits("sf", 2)
	f2 := v.Digits("t", 1) + "." + v.Digits("tf", 2)
	out := v.Choice("direction", 2) == 0
	dir := "IN"
	if out {
		dir = "OUT"
	}
	targetFeeCur := []string{"NZD", ""}[v.Choice("targetfee", 2)]
	row := `"CARD_TRANSACTION-17",COMPLETED,` + dir + `,"2023-12-04 10:00:00","2023-12-05 10:00:00",` + f1 + `,NZD,` + f2 + `,` + targetFeeCur + `,"Rocky",` + amt + `,NZD,"Kaikoura",` + amt + `,NZD,1.0,,` + "\n"
	reg := registry.New()
	acc := reg.Accounts().MustGet("Assets:Wise")
	p := parser{registry: reg, reader: csv.NewReader(strings.NewReader(zzWiseHeader + row)), account: acc,
		feeAccount: reg.Accounts().MustGet("Expenses:Fees"), tradingAccount: reg.Accounts().MustGet("Expenses:Trading"), journal: journal.New()}
	var err error
	stdout := v.CaptureStdout(func() { err = p.parse() })
	v.Assert(stdout == "", "importer-writes-nothing-but-the-journal")
	v.Assert(err == nil, "well-formed-row-is-imported")
	if err != nil {
		return
	}
	var trx []*model.Transaction
	for _, d := range p.journal.Build().Days {
		trx = append(trx, d.Transactions...)
		v.Assert(len(d.Prices) == 0 && len(d.Assertions) == 0, "nothing-else-is-emitted")
	}
	v.Assert(len(trx) == 1, "exactly-one-transaction-per-booking-row")
	if len(trx) != 1 {
		return
	}
	t := trx[0]
	v.Assert(t.Date.Equal(date.Date(2023, 12, 4)), "transaction-on-the-row-date")
	a, _ := decimal.NewFromString(amt)
	s1, _ := decimal.NewFromString(f1)
	s2, _ := decimal.NewFromString(f2)
	want := a
	if out {
		want = a.Neg()
	}
	want = want.Sub(s1) // the source fee is charged to the account
	if targetFeeCur != "" {
		want = want.Sub(s2) // and so is the target fee, when the row carries one
	}
	effect, fees := decimal.Zero, decimal.Zero
	for _, po := range t.Postings {
		v.Assert(po.Commodity.Name() == "NZD", "row-currency")
		if po.Account == acc {
			effect = effect.Add(po.Quantity)
		}
		if po.Account.Name() == "Expenses:Fees" {
			fees = fees.Add(po.Quantity)
		}
	}
	v.Assert(effect.Equal(want), "effect-on-import-account-is-the-signed-row-amount-less-fees")
	wantFees := s1
	if targetFeeCur != "" {
		wantFees = wantFees.Add(s2)
	}
	v.Assert(fees.Equal(wantFees), "fees-booked-are-the-fees-of-the-row")
	v.Observe("effect", effect)
}
