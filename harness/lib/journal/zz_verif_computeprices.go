package journal

import (
	"time"

	"github.com/sboehler/knut/lib/model"
	"github.com/sboehler/knut/lib/model/price"
	"github.com/sboehler/knut/lib/model/registry"
	"github.com/shopspring/decimal"

	v "github.com/sboehler/knut/lib/zzverif"
)

type zzEdge struct{ F, T int }

// commodities: 0=V (valuation), 1=A, 2=B, 3=C; graphs without alternative paths
// and without redeclaration (those are the subject of price.VerifPrices)
var zzPriceShapes = [][]zzEdge{
	0: {{1, 0}},
	1: {{0, 1}},
	2: {{1, 2}, {2, 0}},
	3: {{1, 2}, {0, 2}},
	4: {{1, 2}, {2, 3}, {3, 0}},
	5: {{1, 0}, {2, 0}, {3, 0}},
	6: {{1, 0}, {2, 3}},
	7: {{0, 1}, {1, 2}, {2, 3}},
	8: {{1, 0}, {1, 2}, {3, 2}},
}

// VerifComputePrices: C12 over the days of a journal. Every price declaration
// is placed on an arbitrary day; on every day the normalized prices the
// ComputePrices processor attaches to the day are those of the declarations
// made up to and including that day.
func VerifComputePrices() {
	edges := zzPriceShapes[v.Param("shape")]
	ndays := v.Param("days")
	scale := v.Param("scale")
	reg := registry.New()
	com := []*model.Commodity{reg.Commodities().MustGet("V"), reg.Commodities().MustGet("A"), reg.Commodities().MustGet("B"), reg.Commodities().MustGet("C")}
	day := func(i int) time.Time { return time.Date(2020, 1, 1+i, 0, 0, 0, 0, time.UTC) }
	b := New()
	for i := 0; i <= ndays; i++ { // every day exists, also days without a price (and one day after the last price)
		b.Add(&model.Open{Date: day(i), Account: reg.Accounts().MustGet("Assets:A")})
	}
	prices := make([]decimal.Decimal, len(edges))
	on := make([]int, len(edges))
	for i, e := range edges {
		prices[i] = v.Decimal("p", scale)
		v.Assume(prices[i].IsPositive())
		on[i] = v.Choice("day"+string(rune('0'+i)), ndays)
		b.Add(&model.Price{Date: day(on[i]), Commodity: com[e.F], Price: prices[i], Target: com[e.T]})
	}
	j := b.Build()
	// (Journal.Process hands the days to the processor in date order through cpr.Seq;
	// the sequential core of that is applied here)
	var err error
	proc := ComputePrices(com[0])
	for _, d := range j.Days {
		if err = proc.Process(d); err != nil {
			break
		}
	}
	v.Assert(err == nil, "prices-are-processed")
	if err != nil {
		return
	}
	v.Assert(len(j.Days) == ndays+1, "unwind-days")
	type dir struct {
		ok bool
		p  decimal.Decimal
	}
	one := decimal.NewFromInt(1)
	for di, d := range j.Days {
		var pr [4][4]dir
		any := false
		for i, e := range edges {
			if on[i] <= di {
				any = true
				pr[e.F][e.T] = dir{true, prices[i]}
				pr[e.T][e.F] = dir{true, one.Div(prices[i]).Truncate(8)}
			}
		}
		if !any {
			continue // before the first declaration nothing is stated
		}
		var want [4]dir
		want[0] = dir{true, one}
		for round := 0; round < 4; round++ {
			for c := 0; c < 4; c++ {
				if !want[c].ok {
					continue
				}
				for n := 0; n < 4; n++ {
					if pr[n][c].ok && !want[n].ok {
						want[n] = dir{true, price.Multiply(pr[n][c].p, want[c].p)}
					}
				}
			}
		}
		for c := 0; c < 4; c++ {
			got, perr := d.Normalized.Price(com[c])
			if want[c].ok {
				v.Assert(perr == nil, "connected-commodity-has-price-on-the-day")
				if perr == nil {
					v.Assert(got.Equal(want[c].p), "price-on-the-day-is-chain-of-latest-declarations")
				}
			} else {
				v.Assert(perr != nil, "unconnected-commodity-has-no-price-on-the-day")
			}
		}
	}
}
