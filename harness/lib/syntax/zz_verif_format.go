package syntax

import (
	"strings"

	"github.com/sboehler/knut/lib/syntax/directives"
	"github.com/sboehler/knut/lib/syntax/parser"

	v "github.com/sboehler/knut/lib/zzverif"
)

func zzParse(text string) (directives.File, error) {
	p := parser.New(text, "f")
	if err := p.Advance(); err != nil {
		return directives.File{}, err
	}
	return p.ParseFile()
}

func zzFormat(f directives.File) (string, error) {
	var sb strings.Builder
	err := FormatFile(&sb, f)
	return sb.String(), err
}

func zzSameAccount(a, b directives.Account) bool {
	return a.Extract() == b.Extract() && a.Macro == b.Macro
}

// zzSameDirective: identical dates, accounts, amounts, commodities, descriptions and annotations.
func zzSameDirective(x, y directives.Directive) bool {
	switch a := x.Directive.(type) {
	case directives.Open:
		b, ok := y.Directive.(directives.Open)
		return ok && a.Date.Extract() == b.Date.Extract() && zzSameAccount(a.Account, b.Account)
	case directives.Close:
		b, ok := y.Directive.(directives.Close)
		return ok && a.Date.Extract() == b.Date.Extract() && zzSameAccount(a.Account, b.Account)
	case directives.Price:
		b, ok := y.Directive.(directives.Price)
		return ok && a.Date.Extract() == b.Date.Extract() && a.Commodity.Extract() == b.Commodity.Extract() &&
			a.Price.Extract() == b.Price.Extract() && a.Target.Extract() == b.Target.Extract()
	case directives.Include:
		b, ok := y.Directive.(directives.Include)
		return ok && a.IncludePath.Content.Extract() == b.IncludePath.Content.Extract()
	case directives.Assertion:
		b, ok := y.Directive.(directives.Assertion)
		if !ok || a.Date.Extract() != b.Date.Extract() || len(a.Balances) != len(b.Balances) {
			return false
		}
		for i := range a.Balances {
			p, q := a.Balances[i], b.Balances[i]
			if !zzSameAccount(p.Account, q.Account) || p.Quantity.Extract() != q.Quantity.Extract() || p.Commodity.Extract() != q.Commodity.Extract() {
				return false
			}
		}
		return true
	case directives.Transaction:
		b, ok := y.Directive.(directives.Transaction)
		if !ok || a.Date.Extract() != b.Date.Extract() || a.Description.Content.Extract() != b.Description.Content.Extract() || len(a.Bookings) != len(b.Bookings) {
			return false
		}
		for i := range a.Bookings {
			p, q := a.Bookings[i], b.Bookings[i]
			if !zzSameAccount(p.Credit, q.Credit) || !zzSameAccount(p.Debit, q.Debit) || p.Quantity.Extract() != q.Quantity.Extract() || p.Commodity.Extract() != q.Commodity.Extract() {
				return false
			}
		}
		// annotations
		pa, pb := a.Addons.Performance, b.Addons.Performance
		if pa.Empty() != pb.Empty() || len(pa.Targets) != len(pb.Targets) || (pa.Targets == nil) != (pb.Targets == nil) {
			return false
		}
		for i := range pa.Targets {
			if pa.Targets[i].Extract() != pb.Targets[i].Extract() {
				return false
			}
		}
		ca, cb := a.Addons.Accrual, b.Addons.Accrual
		if ca.Empty() != cb.Empty() {
			return false
		}
		if !ca.Empty() {
			if ca.Interval.Extract() != cb.Interval.Extract() || ca.Start.Extract() != cb.Start.Extract() || ca.End.Extract() != cb.End.Extract() || !zzSameAccount(ca.Account, cb.Account) {
				return false
			}
		}
		return true
	}
	return false
}

var zzWS = []string{" ", "\t", "  ", " \r"}

// templates: \x01 = a whitespace run (choice), \x02 = k symbolic bytes of a name, \x03 = k symbolic free bytes
var zzFormatTemplates = []string{
	0:  "2021-01-01\x01open\x01A:\x02\x01\n",
	1:  "2021-01-01 \"d\x03\"\x01\nA:\x02\x01B\x011.5 CHF\n",
	2:  "# c\x03\n2021-01-01 open A\n\n* h\x03\n\n2021-01-02 close A",
	3:  "2021-01-01 balance\x01\nA\x011 C\nB:\x02 2 D\n\n2021-01-02 balance A 1 C\n",
	4:  "@performance(\x01C\x01,D)\n@accrue monthly 2021-01-01 2021-03-01 A:B\n2021-01-01 \"d\"\nA B 1 C\n",
	5:  "@accrue daily 2021-01-01 2021-03-01 A:B\n@performance()\n2021-01-01 \"d\"\nA:\x02 B 1 C\n",
	6:  "2021-01-01 price A\x011.5\x01B\x01\n",
	7:  "include \"a\x03\"\x01\n",
	8:  "2021-01-01 \"a\"\nAssets:\x02 B 1 C\n2021-01-02 \"b\"\nA Expenses:Food -2.50 D\n",
	9:  "2021-01-01 open A\x01",
	10: "2021-01-01 \"line1\x03line2\"\nA B 1 C\nC D 2 E\x01\n// c\n",
	11: "\x032021-01-01 open A\n",
	12: "# only comments\x03\n\n* heading\n// 2021-01-01 open A\n", // a parseable file without any directive
	13: "\x03",
}

func zzFill(t string, k int) string {
	out := ""
	for i := 0; i < len(t); i++ {
		switch t[i] {
		case 1:
			out += zzWS[v.Choice("ws", len(zzWS))]
		case 2:
			out += v.Bytes("n", k)
		case 3:
			out += v.Bytes("x", k)
		default:
			out += t[i : i+1]
		}
	}
	return out
}

// VerifFormat: C08.
func VerifFormat() {
	text := zzFill(zzFormatTemplates[v.Param("tmpl")], v.Param("k"))
	f1, err := zzParse(text)
	v.Assume(err == nil) // journals that parse (an unparseable file is left alone: C18)
	out, ferr := zzFormat(f1)
	v.Assert(ferr == nil, "format-succeeds-on-parseable-input")
	f2, err2 := zzParse(out)
	v.Assert(err2 == nil, "formatted-text-parses")
	if err2 != nil {
		return
	}
	v.Assert(len(f1.Directives) == len(f2.Directives), "same-number-of-directives")
	if len(f1.Directives) != len(f2.Directives) {
		return
	}
	p1, p2 := 0, 0
	for i := range f1.Directives {
		d1, d2 := f1.Directives[i], f2.Directives[i]
		v.Assert(zzSameDirective(d1, d2), "directive-content-preserved")
		v.Assert(text[p1:d1.Start] == out[p2:d2.Start], "text-between-directives-kept-byte-for-byte")
		p1, p2 = d1.End, d2.End
	}
	v.Assert(text[p1:] == out[p2:], "trailing-text-kept-byte-for-byte")
	out2, ferr2 := zzFormat(f2)
	v.Assert(ferr2 == nil && out2 == out, "format-is-idempotent")
	v.Observe("out", out)
}
