package syntax

import (
	"context"
	"sort"
	"strings"
	"time"

	"github.com/sboehler/knut/lib/syntax/directives"
	"golang.org/x/sync/errgroup"

	v "github.com/sboehler/knut/lib/zzverif"
)

// one file of an include tree: name relative to the work directory, lines (a
// number n >= 0 is the n-th directive of the journal, a string is literal text)
type zzTreeFile struct {
	name  string
	lines []any
}

// include trees holding the same four directives. The last entry of a layout is
// its deepest included file (the one the fault plan removes or corrupts).
var zzLayouts = [][]zzTreeFile{
	0: {{"root.knut", []any{0, 1, 2, 3}}},
	1: {{"root.knut", []any{0, "include \"sub/a.knut\"\n", 3}}, {"sub/a.knut", []any{1, 2}}},
	// a path that climbs out of the including file's directory
	2: {{"root.knut", []any{"include \"sub/a.knut\"\n"}}, {"sub/a.knut", []any{0, "include \"../b.knut\"\n", 1}}, {"b.knut", []any{2, 3}}},
	// fan-out 2, the second branch includes a sibling by a bare name
	3: {{"root.knut", []any{"include \"sub/b.knut\"\n", "include \"a.knut\"\n", 0}}, {"sub/b.knut", []any{2, "include \"c.knut\"\n"}}, {"sub/c.knut", []any{3}}, {"a.knut", []any{1}}},
	// the include is the last line of the file and has no final newline
	4: {{"root.knut", []any{0, 1, 2, "include \"a.knut\""}}, {"a.knut", []any{3}}},
	// a failing include (fault plan) followed by includes that succeed
	5: {{"root.knut", []any{"include \"x.knut\"\n", "include \"b.knut\"\n", "include \"c.knut\"\n", 0}}, {"b.knut", []any{1, 2}}, {"c.knut", []any{3}}, {"x.knut", []any{}}},
}

var (
	zzPending []func() error
	zzArrived []directives.File
)

// zzLoadTree runs the recursive loader. Natively: the real
// ParseFileRecursively with its goroutines. Symbolically: the real parseRec,
// with errgroup.Group.Go replaced by a queue whose entries run one at a time in
// an order chosen by forking (every order in which the loader's goroutines can
// complete), and cpr.Push replaced by a list recording the arrival order.
func zzLoadTree(root string) ([]directives.File, error) {
	fs, err, _ := zzLoadTreeBounded(root, 1<<30)
	return fs, err
}

// zzLoadTreeBounded: as zzLoadTree, giving up after maxTasks completed loader
// tasks (natively: after 3 seconds); terminated reports whether the loader finished.
func zzLoadTreeBounded(root string, maxTasks int) (fs []directives.File, err error, terminated bool) {
	if !v.Symbolic() {
		ch, worker := ParseFileRecursively(root)
		done := make(chan error, 1)
		go func() { done <- worker(context.Background()) }()
		var files []directives.File
		collected := make(chan struct{})
		go func() {
			for f := range ch {
				files = append(files, f)
			}
			close(collected)
		}()
		select {
		case <-collected:
			return files, <-done, true
		case <-time.After(3 * time.Second):
			v.ExitAfterCase() // the loader's goroutines never end: this process must not go on
			return nil, nil, false
		}
	}
	zzPending, zzArrived = nil, nil
	v.Override("(*golang.org/x/sync/errgroup.Group).Go", func(g *errgroup.Group, f func() error) {
		zzPending = append(zzPending, f)
	})
	v.Override("github.com/sboehler/knut/lib/common/cpr.Push", func(ctx context.Context, ch chan<- directives.File, fs ...directives.File) error {
		zzArrived = append(zzArrived, fs...)
		return nil
	})
	ctx := context.Background()
	wg := new(errgroup.Group)
	var first error
	res, err := parseRec(ctx, wg, nil, root, nil)
	if err != nil {
		first = err
	} else {
		zzArrived = append(zzArrived, res)
	}
	for step := 0; len(zzPending) > 0; step++ {
		if step >= maxTasks {
			return zzArrived, first, false
		}
		i := 0
		if len(zzPending) > 1 {
			i = v.Choice("schedNext"+string(rune('a'+step)), len(zzPending))
		}
		f := zzPending[i]
		zzPending = append(append([]func() error{}, zzPending[:i]...), zzPending[i+1:]...)
		if err := f(); err != nil && first == nil {
			first = err // errgroup reports the first error; the other goroutines still run to completion
		}
	}
	return zzArrived, first, true
}

// VerifIncludeCycle: C14 for include graphs with cycles. The loader terminates
// (within 12 completed tasks for graphs of at most 3 files; an acyclic graph of n
// files needs n-1), and a cycle is reported as an error.
func VerifIncludeCycle() {
	switch v.Param("graph") {
	case 0: // a file that includes itself
		v.FSWrite("root.knut", "2020-01-01 open Assets:A\ninclude \"root.knut\"\n")
	case 1: // two files that include each other
		v.FSWrite("root.knut", "include \"sub/a.knut\"\n2020-01-01 open Assets:A\n")
		v.FSWrite("sub/a.knut", "2020-01-01 open Assets:B\ninclude \"../root.knut\"\n")
	case 2: // a cycle of three that does not pass through the root
		v.FSWrite("root.knut", "include \"a.knut\"\n")
		v.FSWrite("a.knut", "include \"b.knut\"\n2020-01-01 open Assets:A\n")
		v.FSWrite("b.knut", "include \"a.knut\"\n")
	case 3: // no cycle: the same file included from two places is loaded twice and the loader ends
		v.FSWrite("root.knut", "include \"a.knut\"\ninclude \"b.knut\"\n")
		v.FSWrite("a.knut", "include \"c.knut\"\n")
		v.FSWrite("b.knut", "include \"c.knut\"\n")
		v.FSWrite("c.knut", "2020-01-01 price USD 0.9 CHF\n")
	case 4: // no cycle, three levels down: b includes c and d, and c includes d as well
		v.FSWrite("root.knut", "include \"a.knut\"\n")
		v.FSWrite("a.knut", "include \"b.knut\"\n")
		v.FSWrite("b.knut", "include \"c.knut\"\ninclude \"d.knut\"\n")
		v.FSWrite("c.knut", "include \"d.knut\"\n2020-01-01 open Assets:A\n")
		v.FSWrite("d.knut", "2020-01-01 price USD 0.9 CHF\n")
	}
	acyclic := v.Param("graph") >= 3
	_, err, terminated := zzLoadTreeBounded(v.FSPath("root.knut"), 12)
	v.AssertExcept(terminated, "loader-terminates", "C14-F21", !acyclic)
	if terminated && !acyclic {
		v.Assert(err != nil, "include-cycle-is-an-error")
	}
	if terminated && acyclic {
		v.Assert(err == nil, "acyclic-graph-is-loaded")
	}
}

// ZZLoadTree exposes zzLoadTree to the harnesses of other packages.
func ZZLoadTree(root string) ([]directives.File, error) { return zzLoadTree(root) }

// VerifIncludeTree: C05/C14 for the include loader. The same directives laid out
// as one file or as a tree of included files (sub-directories, paths relative to
// the including file, fan-out, include at the end of a file) reach the journal
// exactly once each, whatever the order in which the loader's tasks complete; a
// missing or unparseable included file fails the load.
func VerifIncludeTree() {
	var layout []zzTreeFile
	if li := v.Param("layout"); li < len(zzLayouts) {
		layout = zzLayouts[li]
	} else {
		// layout 6: an included file in a nested directory whose path ends with the
		// complete path of the file that includes it (a different file, not a cycle)
		nested := "x" + v.FSPath("root.knut")
		layout = []zzTreeFile{{"root.knut", []any{0, "include \"" + nested + "\"\n", 3}}, {nested, []any{1, 2}}}
	}
	fault := v.Param("fault") // 0 none, 1 the deepest included file is missing, 2 it does not parse
	ds := []string{
		"2020-01-01 open Assets:A\n",
		"2020-01-01 open Expenses:X\n",
		"2020-01-02 \"t" + v.Bytes("desc", v.Param("k")) + "\"\nAssets:A Expenses:X 1 CHF\n",
		"2020-01-03 price USD 0.9 CHF\n",
	}
	// precondition: the journal in one file is accepted by the parser
	flat, ferr := zzParse(strings.Join(ds, "\n"))
	v.Assume(ferr == nil)
	var want []string
	for _, d := range flat.Directives {
		want = append(want, d.Extract())
	}
	v.Assume(len(want) == len(ds))
	for fi, f := range layout {
		var sb strings.Builder
		for li, l := range f.lines {
			if li > 0 {
				sb.WriteString("\n")
			}
			switch x := l.(type) {
			case int:
				sb.WriteString(ds[x])
			case string:
				sb.WriteString(x)
			}
		}
		last := fi == len(layout)-1 && len(layout) > 1
		switch {
		case last && fault == 1:
			continue // missing
		case last && fault == 2:
			v.FSWrite(f.name, sb.String()+"2020-01-04 oops\n")
		default:
			v.FSWrite(f.name, sb.String())
		}
	}
	files, err := zzLoadTree(v.FSPath("root.knut"))
	if fault != 0 && len(layout) > 1 {
		v.Assert(err != nil, "error-in-an-included-file-fails-the-load")
		return
	}
	v.Assert(err == nil, "include-tree-is-loaded")
	if err != nil {
		return
	}
	v.Assert(len(files) == len(layout), "every-file-loaded-exactly-once")
	var got []string
	for _, f := range files {
		for _, d := range f.Directives {
			if _, ok := d.Directive.(directives.Include); !ok {
				got = append(got, d.Extract())
			}
		}
	}
	sort.Strings(got)
	sort.Strings(want)
	v.Assert(len(got) == len(want), "same-number-of-directives-as-the-flat-journal")
	if len(got) == len(want) {
		for i := range got {
			v.Assert(got[i] == want[i], "same-directives-as-the-flat-journal")
		}
	}
	v.Observe("files", len(files))
}
