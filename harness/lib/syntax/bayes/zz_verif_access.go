package bayes

import "github.com/sboehler/knut/lib/syntax"

// ZZTie reports whether, for the placeholder side of booking b whose other
// account is `other`, two admissible candidates share the maximal score (so the
// winner depends on map iteration order). Uses the real scoring.
func ZZTie(m *Model, t *syntax.Transaction, b *syntax.Booking, other string) bool {
	tokens := tokenize(t, b, other)
	best, n := 0.0, 0
	first := true
	for candidate := range m.countByAccount {
		if candidate == other {
			continue
		}
		s := m.scoreCandidate(candidate, tokens)
		switch {
		case first || s > best:
			best, n, first = s, 1, false
		case s == best:
			n++
		}
	}
	return n >= 2
}
