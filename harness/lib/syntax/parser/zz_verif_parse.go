package parser

import (
	"strings"
	"github.com/sboehler/knut/lib/syntax/directives"

	v "github.com/sboehler/knut/lib/zzverif"
)

// zzGapOK: s consists only of whitespace and comment lines (lenient reading:
// every line is blank, or optional whitespace followed by a comment to the end
// of the line; comment starts are '*', '#', "//").
func zzGapOK(s string) bool {
	i := 0
	for i < len(s) {
		// one line
		for i < len(s) && (s[i] == ' ' || s[i] == '\t' || s[i] == '\r') {
			i++
		}
		if i >= len(s) {
			return true
		}
		switch {
		case s[i] == '\n':
			i++
		case s[i] == '*' || s[i] == '#' || (s[i] == '/' && i+1 < len(s) && s[i+1] == '/'):
			for i < len(s) && s[i] != '\n' {
				i++
			}
			if i < len(s) {
				i++
			}
		default:
			return false
		}
	}
	return true
}

type zzWalker struct {
	text string
	n    int
}

func (w *zzWalker) in(r, parent directives.Range, label string) {
	v.Assert(0 <= r.Start && r.Start <= r.End && r.End <= w.n, "range-within-text:"+label)
	v.Assert(parent.Start <= r.Start && r.End <= parent.End, "child-within-parent:"+label)
	v.Assert(r.Text == w.text, "text-identity:"+label)
	if 0 <= r.Start && r.Start <= r.End && r.End <= w.n {
		v.Assert(r.Extract() == w.text[r.Start:r.End], "extract-is-slice:"+label)
	}
}

func (w *zzWalker) date(d directives.Date, parent directives.Range) {
	w.in(d.Range, parent, "date")
}

func (w *zzWalker) addons(a directives.Addons, parent directives.Range) {
	if a.Empty() && a.Performance.Empty() && a.Accrual.Empty() {
		return
	}
	w.in(a.Range, parent, "addons")
	if !a.Performance.Empty() {
		w.in(a.Performance.Range, a.Range, "performance")
		for _, c := range a.Performance.Targets {
			w.in(c.Range, a.Performance.Range, "performance-target")
		}
	}
	if !a.Accrual.Empty() {
		w.in(a.Accrual.Range, a.Range, "accrual")
		w.in(a.Accrual.Interval.Range, a.Accrual.Range, "accrual-interval")
		w.date(a.Accrual.Start, a.Accrual.Range)
		w.date(a.Accrual.End, a.Accrual.Range)
		w.in(a.Accrual.Account.Range, a.Accrual.Range, "accrual-account")
	}
	// each annotation's text is its own annotation: it starts at its keyword and does not reach into its sibling
	pr, ar := a.Performance.Range, a.Accrual.Range
	if !a.Performance.Empty() && 0 <= pr.Start && pr.Start <= pr.End && pr.End <= w.n {
		v.Assert(strings.HasPrefix(w.text[pr.Start:pr.End], "@performance"), "annotation-text-is-its-own-annotation")
	}
	if !a.Accrual.Empty() && 0 <= ar.Start && ar.Start <= ar.End && ar.End <= w.n {
		v.Assert(strings.HasPrefix(w.text[ar.Start:ar.End], "@accrue"), "annotation-text-is-its-own-annotation")
	}
	if !a.Performance.Empty() && !a.Accrual.Empty() {
		v.Assert(pr.End <= ar.Start || ar.End <= pr.Start, "annotations-disjoint")
	}
}

func (w *zzWalker) directive(d directives.Directive, file directives.Range) {
	w.in(d.Range, file, "directive")
	switch x := d.Directive.(type) {
	case directives.Include:
		w.in(x.Range, d.Range, "include")
		w.in(x.IncludePath.Range, x.Range, "include-path")
		w.in(x.IncludePath.Content, x.IncludePath.Range, "include-path-content")
	case directives.Open:
		w.in(x.Range, d.Range, "open")
		w.date(x.Date, x.Range)
		w.in(x.Account.Range, x.Range, "open-account")
	case directives.Close:
		w.in(x.Range, d.Range, "close")
		w.date(x.Date, x.Range)
		w.in(x.Account.Range, x.Range, "close-account")
	case directives.Price:
		w.in(x.Range, d.Range, "price")
		w.date(x.Date, x.Range)
		w.in(x.Commodity.Range, x.Range, "price-commodity")
		w.in(x.Price.Range, x.Range, "price-price")
		w.in(x.Target.Range, x.Range, "price-target")
	case directives.Assertion:
		w.in(x.Range, d.Range, "assertion")
		w.date(x.Date, x.Range)
		v.Assert(len(x.Balances) >= 1, "assertion-has-balance")
		prev := x.Date.End
		for _, b := range x.Balances {
			w.in(b.Range, x.Range, "balance")
			v.Assert(prev <= b.Start, "balances-ordered")
			prev = b.End
			w.in(b.Account.Range, b.Range, "balance-account")
			w.in(b.Quantity.Range, b.Range, "balance-quantity")
			w.in(b.Commodity.Range, b.Range, "balance-commodity")
		}
	case directives.Transaction:
		w.in(x.Range, d.Range, "transaction")
		w.date(x.Date, x.Range)
		w.addons(x.Addons, x.Range)
		w.in(x.Description.Range, x.Range, "description")
		w.in(x.Description.Content, x.Description.Range, "description-content")
		v.Assert(len(x.Bookings) >= 1, "transaction-has-booking")
		prev := x.Description.End
		for _, b := range x.Bookings {
			w.in(b.Range, x.Range, "booking")
			v.Assert(prev <= b.Start, "bookings-ordered")
			prev = b.End
			w.in(b.Credit.Range, b.Range, "booking-credit")
			w.in(b.Debit.Range, b.Range, "booking-debit")
			w.in(b.Quantity.Range, b.Range, "booking-quantity")
			w.in(b.Commodity.Range, b.Range, "booking-commodity")
			v.Assert(b.Credit.End <= b.Debit.Start && b.Debit.End <= b.Quantity.Start && b.Quantity.End <= b.Commodity.Start, "booking-fields-ordered")
		}
	default:
		v.Assert(false, "directive-has-known-kind")
	}
}

func zzErrRanges(err error, n int) {
	for depth := 0; err != nil && depth < 40; depth++ {
		e, ok := err.(directives.Error)
		if !ok {
			return
		}
		v.Assert(0 <= e.Start && e.Start <= e.End && e.End <= n, "error-range-within-text")
		err = e.Wrapped
	}
}

// zzCheckParse is the C07 oracle for one input text.
func zzCheckParse(text string) {
	n := len(text)
	var (
		file directives.File
		err  error
	)
	var called []directives.Directive
	panicked, _ := v.Try(func() {
		p := New(text, "f")
		p.Callback = func(d directives.Directive) { called = append(called, d) }
		if err = p.Advance(); err != nil {
			return
		}
		file, err = p.ParseFile()
	})
	v.Assert(!panicked, "no-panic")
	if panicked {
		return
	}
	if err != nil {
		zzErrRanges(err, n)
		rendered, _ := v.Try(func() {
			_ = err.Error()
			if e, ok := err.(directives.Error); ok {
				loc := e.Location()
				if 0 <= e.Start && e.Start <= e.End && e.End <= n {
					_ = e.Context(1)
					// the rendered position lies inside the input: line = 1 + number of line feeds before
					// the error position (independent count on the same bytes)
					lines := 1
					for i := 0; i < e.End; i++ {
						if text[i] == '\n' {
							lines++
						}
					}
					v.Assert(loc.Line == lines, "error-line-is-a-line-of-the-input")
				}
			}
		})
		v.Assert(!rendered, "error-renders")
		v.Observe("err", true)
		return
	}
	if zzCheckCallback {
		// (C05) the loader follows includes from this callback: it must see every directive of the tree, once
		v.Assert(len(called) == len(file.Directives), "callback-once-per-directive")
		if len(called) == len(file.Directives) {
			for i := range called {
				v.Assert(called[i].Start == file.Directives[i].Start && called[i].End == file.Directives[i].End, "callback-gets-the-directive")
			}
		}
	}
	w := &zzWalker{text: text, n: n}
	fr := file.Range
	v.Assert(fr.Start == 0 && fr.End == n, "file-range-is-whole-text")
	v.Assert(fr.Text == text, "file-text-identity")
	pos := 0
	for _, d := range file.Directives {
		w.directive(d, fr)
		v.Assert(pos <= d.Start && d.Start < d.End, "directives-increasing-disjoint")
		if pos <= d.Start && d.Start <= n {
			v.Assert(zzGapOK(text[pos:d.Start]), "gap-is-whitespace-or-comments")
		}
		pos = d.End
	}
	if pos <= n {
		v.Assert(zzGapOK(text[pos:n]), "tail-gap-is-whitespace-or-comments")
	}
	v.Observe("err", false)
	v.Observe("ndirectives", len(file.Directives))
}

var zzCheckCallback bool

var zzIncludeTemplates = []string{
	0: "include \"a.knut\"\x00",
	1: "include \"a.knut\"\n\x00include \"b/c.knut\"",
	2: "2021-01-01 open A\ninclude \"../x.knut\"\x00\n2021-01-02 open B\n",
	3: "\x00include \"a\"\n",
}

// VerifParserCallback: C05 kernel for include trees. The recursive loader learns
// about include directives only through the parser's Callback; for every text the
// parser accepts, the callback must be invoked exactly once per directive
// (wherever the include stands: first line, last line without newline, between
// other directives).
func VerifParserCallback() {
	zzCheckCallback = true
	t := zzIncludeTemplates[v.Param("tmpl")]
	hole := v.Bytes("h", v.Param("k"))
	out := ""
	for i := 0; i < len(t); i++ {
		if t[i] == 0 {
			out += hole
		} else {
			out += t[i : i+1]
		}
	}
	zzCheckParse(out)
	zzCheckCallback = false
}

// VerifParseBytes: every byte of the input symbolic; length n.
func VerifParseBytes() {
	zzCheckParse(v.Bytes("t", v.Param("n")))
}

// VerifParseBytesSplit: as VerifParseBytes, the space split over 16 instances
// by the high nibble of the first byte (for parallel exploration).
func VerifParseBytesSplit() {
	t := v.Bytes("t", v.Param("n"))
	v.Assume(int(t[0])>>4 == v.Param("hi"))
	zzCheckParse(t)
}

var zzTemplates = []string{
	0:  "2021-01-01 open A:B\x00",
	1:  "2021-01-01 open \x00\n",
	2:  "\x002021-01-01 close A\n",
	3:  "2021-01-0\x00 open A\n",
	4:  "2021-01-01 \"d\x00\"\nA B 1 C\n",
	5:  "2021-01-01 \"d\"\nA B 1\x00 C\n",
	6:  "2021-01-01 \"d\"\nA B 1 C\x00",
	7:  "2021-01-01 price A 1.5\x00B\n",
	8:  "2021-01-01 balance A 1 C\x00",
	9:  "2021-01-01 balance\nA 1 C\nB 2 D\x00",
	10: "@performance(\x00)\n2021-01-01 \"d\"\nA B 1 C\n",
	11: "@accrue monthly 2021-01-01 2021-03-0\x00 A:B\n2021-01-01 \"d\"\nA B 1 C\n",
	12: "include \"a\x00\"\n",
	13: "# c\x00\n2021-01-01 open A\n",
	14: "2021-01-01 open A\n\x00\n2021-01-02 open B\n",
	15: "2021-01-01 \"d\"\nA B 1 C\n\x00 D 2 E\n",
	16: "2021-01-01 \"d\"\n$a\x00 B 1 C\n",
	17: "2021-01-01 open A\x00",
	18: "@accrue monthly 2021-01-01 2021-03-01 A:B\n@performance(\x00)\n2021-01-01 \"d\"\nA B 1 C\n",
	19: "@performance(U)\n@accrue monthly 2021-01-01 2021-03-01 A:B\x00\n2021-01-01 \"d\"\nA B 1 C\n",
}

// VerifParseTemplate: a valid directive text with a hole of k symbolic bytes.
func VerifParseTemplate() {
	t := zzTemplates[v.Param("tmpl")]
	k := v.Param("k")
	hole := v.Bytes("h", k)
	out := ""
	for i := 0; i < len(t); i++ {
		if t[i] == 0 {
			out += hole
		} else {
			out += t[i : i+1]
		}
	}
	zzCheckParse(out)
}
