package transaction

import (
	"fmt"
	"time"

	"github.com/sboehler/knut/lib/common/date"
	"github.com/sboehler/knut/lib/model/account"
	"github.com/sboehler/knut/lib/model/posting"
	"github.com/sboehler/knut/lib/model/registry"
	"github.com/sboehler/knut/lib/syntax"
	"github.com/shopspring/decimal"

	v "github.com/sboehler/knut/lib/zzverif"
)

func zzRange(s string) syntax.Range { return syntax.Range{Text: s, Start: 0, End: len(s)} }

var zzIntervals = []string{"once", "daily", "weekly", "monthly", "quarterly", "yearly"}

// account-type combinations of a booking (credit, debit)
var zzCombos = [][2]string{
	{"Assets:A", "Expenses:X"},     // 0 A/L -> I/E
	{"Income:I", "Assets:A"},       // 1 I/E -> A/L
	{"Income:I", "Expenses:X"},     // 2 I/E -> I/E
	{"Assets:A", "Liabilities:L"},  // 3 A/L -> A/L
	{"Equity:E", "Expenses:X"},     // 4 Equity -> I/E   (finding C10-F15)
	{"Assets:A", "Equity:E"},       // 5 A/L -> Equity    (finding C10-F15)
	{"Expenses:X", "Expenses:Y:Z"}, // 6 I/E -> I/E nested
	{"Assets:P", "Expenses:X"},     // 7 the accrual account itself -> I/E
}

// VerifAccrual: C10. Symbolic: booked quantities, month/day of window start and
// end, transaction date. Concrete per instance: interval, anchor year, account
// type combination(s), decimal scale, bounds.
func VerifAccrual() {
	iv := v.Param("interval")
	year := v.Param("anchor")
	K := v.Param("K")
	maxDays := v.Param("maxdays")
	nb := v.Param("bookings")
	scale := v.Param("scale")

	reg := registry.New()
	accrualAcc := reg.Accounts().MustGet("Assets:P")
	com := []string{"CHF", "USD"}

	tdate := v.Day("tdate", year-1, year+1)
	var postings []*posting.Posting
	hasEquity := false
	type orig struct {
		acc *account.Account
		com int
		q   decimal.Decimal
	}
	var origs []orig
	for i := 0; i < nb; i++ {
		combo := zzCombos[v.Param(fmt.Sprintf("combo%d", i))]
		cr, dr := reg.Accounts().MustGet(combo[0]), reg.Accounts().MustGet(combo[1])
		if cr.Type() == account.EQUITY || dr.Type() == account.EQUITY {
			hasEquity = true
		}
		q := v.Decimal("q", scale)
		c := i % 2
		ps := posting.Builder{Credit: cr, Debit: dr, Commodity: reg.Commodities().MustGet(com[c]), Quantity: q}.Build()
		postings = append(postings, ps...)
		origs = append(origs, orig{cr, c, q.Neg()}, orig{dr, c, q})
	}
	t := Builder{Date: tdate, Description: "d", Postings: postings}.Build()

	// month: choice variable (forked); day of month: two symbolic digits
	sm := v.Param("sm")                            // start month: enumerated by the driver
	em := sm + v.Choice("em", maxDays/28+2) // end month: only months reachable within maxdays
	ey := year
	for em > 12 {
		em -= 12
		ey++
	}
	startTxt := fmt.Sprintf("%04d-%02d-", year, sm) + v.Digits("sd", 2)
	endTxt := fmt.Sprintf("%04d-%02d-", ey, em) + v.Digits("ed", 2)
	acc := &syntax.Accrual{
		Interval: syntax.Interval{Range: zzRange(zzIntervals[iv])},
		Start:    syntax.Date{Range: zzRange(startTxt)},
		End:      syntax.Date{Range: zzRange(endTxt)},
		Account:  syntax.Account{Range: zzRange("Assets:P")},
	}
	start, err1 := acc.Start.Parse()
	end, err2 := acc.End.Parse()
	v.Assume(err1 == nil && err2 == nil) // well-formed dates (what the parser + date check admit)
	v.Assume(!end.Before(start))         // property: non-empty window
	v.Assume(end.Before(start.AddDate(0, 0, maxDays)))

	res, err := expand(reg, t, acc)
	v.Assert(err == nil, "no-error")
	if err != nil {
		return
	}
	part := date.NewPartition(date.Period{Start: start, End: end}, date.Interval(iv), 0)
	ends := part.EndDates()
	v.Assert(len(ends) <= K && len(ends) >= 1, "unwind-K")

	// every generated transaction balances with exactly one pair
	for _, tr := range res {
		v.Assert(len(tr.Postings) == 2, "one-pair")
		if len(tr.Postings) == 2 {
			a, b := tr.Postings[0], tr.Postings[1]
			v.Assert(a.Commodity == b.Commodity && a.Quantity.Add(b.Quantity).IsZero(), "balanced")
			v.Assert(a.Account == b.Other && b.Account == a.Other, "pair-accounts")
		}
	}
	// conservation per (account, commodity)
	accs := []string{"Assets:A", "Liabilities:L", "Income:I", "Expenses:X", "Expenses:Y:Z", "Equity:E", "Assets:P"}
	for _, name := range accs {
		a := reg.Accounts().MustGet(name)
		for c := 0; c < 2; c++ {
			cc := reg.Commodities().MustGet(com[c])
			want := decimal.Zero
			booked := false
			for _, o := range origs {
				if o.acc == a && o.com == c {
					want = want.Add(o.q)
					booked = true
				}
			}
			got := decimal.Zero
			for _, tr := range res {
				for _, p := range tr.Postings {
					if p.Account == a && p.Commodity == cc {
						got = got.Add(p.Quantity)
					}
				}
			}
			if a == accrualAcc {
				// the accrual account nets to zero over the generated transactions, apart from what
				// the original transaction itself booked on it
				v.AssertExcept(got.Equal(want), "accrual-account-nets-to-zero", "C10-F15", hasEquity)
			} else if booked {
				v.AssertExcept(got.Equal(want), "conserved", "C10-F15", hasEquity)
			} else {
				v.Assert(got.IsZero(), "untouched-account")
			}
		}
	}
	// dating: I/E legs at the period ends (exactly one part per period), others at the original date
	for _, o := range origs {
		if o.acc == accrualAcc {
			continue
		}
		var dates []time.Time
		for _, tr := range res {
			for _, p := range tr.Postings {
				if p.Account == o.acc && p.Other == accrualAcc {
					dates = append(dates, tr.Date)
				}
			}
		}
		_ = dates
	}
	for _, tr := range res {
		if len(tr.Postings) != 2 {
			continue
		}
		other := tr.Postings[0].Account
		if other == accrualAcc {
			other = tr.Postings[1].Account
		}
		if other.IsIE() {
			onEnd := false
			for _, e := range ends {
				if tr.Date.Equal(e) {
					onEnd = true
				}
			}
			v.Assert(onEnd, "ie-leg-dated-at-period-end")
		} else if other != accrualAcc {
			v.Assert(tr.Date.Equal(tdate), "other-leg-keeps-date")
		}
	}
	// each I/E posting of the original is split over exactly Size() periods, one part per period end
	for _, o := range origs {
		if !o.acc.IsIE() {
			continue
		}
		for _, e := range ends {
			n := 0
			for _, tr := range res {
				if tr.Date.Equal(e) {
					for _, p := range tr.Postings {
						if p.Account == o.acc && p.Other == accrualAcc {
							n++
						}
					}
				}
			}
			// nb bookings may put the same I/E account on several legs
			legs := 0
			for _, o2 := range origs {
				if o2.acc == o.acc {
					legs++
				}
			}
			v.Assert(n == legs, "one-part-per-period")
		}
	}
	// independent calendar oracle (time primitives only, no knut date code): number of periods and
	// calendar alignment of every period end except the window end
	days := func(a, b time.Time) int { return int(b.Sub(a) / (24 * time.Hour)) }
	want := 1
	switch date.Interval(iv) {
	case date.Daily:
		want = days(start, end) + 1
	case date.Weekly:
		ws := start.AddDate(0, 0, -((int(start.Weekday()) + 6) % 7))
		want = days(ws, end)/7 + 1
	case date.Monthly:
		want = (end.Year()-start.Year())*12 + int(end.Month()) - int(start.Month()) + 1
	case date.Quarterly:
		want = (end.Year()-start.Year())*4 + (int(end.Month())-1)/3 - (int(start.Month())-1)/3 + 1
	case date.Yearly:
		want = end.Year() - start.Year() + 1
	}
	v.Assert(len(ends) == want, "period-count-matches-calendar")
	for _, e := range ends {
		n := e.AddDate(0, 0, 1)
		ok := e.Equal(end)
		switch date.Interval(iv) {
		case date.Daily:
			ok = true
		case date.Weekly:
			ok = ok || e.Weekday() == time.Sunday
		case date.Monthly:
			ok = ok || n.Day() == 1
		case date.Quarterly:
			ok = ok || (n.Day() == 1 && (n.Month()-1)%3 == 0)
		case date.Yearly:
			ok = ok || (n.Day() == 1 && n.Month() == 1)
		}
		v.Assert(ok, "period-end-is-calendar-end")
	}
	v.Observe("n", len(res))
	v.Observe("ends", ends)
}
