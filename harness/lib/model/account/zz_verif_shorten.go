package account

import (
	"regexp"
	"strings"

	v "github.com/sboehler/knut/lib/zzverif"
)

var zzNames = []string{"Assets:A", "Assets:B:C", "Assets:D:E:F", "Expenses:X", "Expenses:Y:Z", "Liabilities:L:M:N:O"}

// VerifShorten: C02 kernel for -m level[:suffix],regex: the mapped account is the
// one the rule describes, unmatched accounts are unaffected, and mapping an
// account does not change the account itself (it is shared by every booking).
func VerifShorten() {
	level, suffix := v.Param("level"), v.Param("suffix")
	prefix := []string{"", "Assets", "Expenses:Y"}[v.Param("prefix")]
	reg := NewRegistry()
	m := Mapping{{Level: level, Suffix: suffix, Regex: regexp.MustCompile("^" + prefix)}}
	f := Shorten(reg, m)
	for round := 0; round < 2; round++ { // every account is mapped once per booking
		for _, name := range zzNames {
			a := reg.MustGet(name)
			got := f(a)
			segs := strings.Split(name, ":")
			n := len(segs)
			want := name
			hidden := false
			if strings.HasPrefix(name, prefix) {
				switch {
				case level == 0:
					hidden = true
				case suffix >= n || level > n-suffix:
				default:
					want = strings.Join(append(append([]string{}, segs[:level]...), segs[n-suffix:]...), ":")
				}
			}
			if hidden {
				v.Assert(got == nil, "level-0-hides")
			} else {
				v.Assert(got != nil, "mapped-account-exists")
				if got != nil {
					v.AssertExcept(got.Name() == want, "mapped-to-level-plus-suffix", "C02-F12", suffix >= 1)
				}
			}
			v.AssertExcept(strings.Join(a.Segments(), ":") == a.Name() && a.Name() == name, "mapping-does-not-modify-the-account", "C02-F12", suffix >= 1)
		}
	}
}
