package price

import (
	"github.com/sboehler/knut/lib/model/commodity"
	"github.com/shopspring/decimal"

	v "github.com/sboehler/knut/lib/zzverif"
)

// declared edge: price of commodity F in commodity T
type zzEdge struct{ F, T int }

// commodities: 0=V (valuation), 1=A, 2=B, 3=C
var zzShapes = [][]zzEdge{
	0:  {{1, 0}},                         // A in V (direct)
	1:  {{0, 1}},                         // V in A (inverse)
	2:  {{1, 2}, {2, 0}},                 // A in B, B in V (chain)
	3:  {{1, 2}, {0, 2}},                 // A in B, V in B (chain through an inverse)
	4:  {{1, 2}, {2, 3}, {3, 0}},         // chain of three
	5:  {{1, 0}, {2, 0}, {3, 0}},         // star
	6:  {{1, 0}, {2, 3}},                 // B, C not connected to V
	7:  {{1, 0}, {2, 0}, {1, 2}},         // triangle (alternative paths): finding C12-F1
	8:  {{1, 0}, {1, 0}},                 // redeclaration
	9:  {{1, 0}, {0, 1}},                 // redeclaration the other way round
	10: {{1, 2}, {2, 0}, {1, 3}, {3, 0}}, // square (alternative paths): finding C12-F1
	11: {{1, 0}, {2, 1}, {1, 0}},         // chain whose first hop is redeclared later
}

var zzCyclic = map[int]bool{7: true, 10: true}
var zzOrdered = map[int]bool{8: true, 9: true, 11: true} // declaration order is chronological

// VerifPrices: C12. Symbolic: declared prices (> 0), declaration order (for
// shapes without redeclaration), hash-map iteration order.
func VerifPrices() {
	shape := v.Param("shape")
	scale := v.Param("scale")
	concMask := v.Param("concrete") // bit i set: price of declaration i is concrete
	edges := zzShapes[shape]
	reg := commodity.NewCommodities()
	com := []*commodity.Commodity{reg.MustGet("V"), reg.MustGet("A"), reg.MustGet("B"), reg.MustGet("C")}
	concrete := []string{"1.25000013", "0.91234567", "7.00000011", "2.50000009"} // products need > 8 decimals
	if zzCyclic[shape] {
		concrete = []string{"1.25", "0.5", "8", "2.5"} // (nested truncations of many-decimal constants are not decided in time)
	}

	prices := make([]decimal.Decimal, len(edges))
	for i := range edges {
		if concMask&(1<<i) != 0 {
			prices[i] = decimal.RequireFromString(concrete[i])
		} else {
			prices[i] = v.Decimal("p", scale)
			v.Assume(prices[i].IsPositive())
		}
	}
	order := make([]int, len(edges))
	for i := range order {
		order[i] = i
	}
	if !zzOrdered[shape] && !zzCyclic[shape] {
		order = v.Perm("order", len(edges))
	}
	v.MapOrder(true)
	ps := make(Prices)
	for _, i := range order {
		err := ps.Insert(com[edges[i].F], prices[i], com[edges[i].T])
		v.Assert(err == nil, "insert-accepts-positive-price")
	}
	// a zero price is rejected and changes nothing
	before := ps.Normalize(com[0])
	errz := ps.Insert(com[1], decimal.Zero, com[2])
	v.Assert(errz != nil, "zero-price-rejected")
	np := ps.Normalize(com[0])
	v.MapOrder(false)
	v.Assert(len(before) == len(np), "zero-price-changes-nothing")

	// oracle: latest declaration per unordered pair, direction adjusted
	type dir struct {
		ok bool
		p  decimal.Decimal
	}
	var pr [4][4]dir // pr[n][c]: price of n in c
	one := decimal.NewFromInt(1)
	for i, e := range edges {
		pr[e.F][e.T] = dir{true, prices[i]}
		pr[e.T][e.F] = dir{true, one.Div(prices[i]).Truncate(8)}
	}
	var want [4]dir
	want[0] = dir{true, one}
	if !zzCyclic[shape] {
		// tree: unique chain; traverse from V
		for round := 0; round < 4; round++ {
			for c := 0; c < 4; c++ {
				if !want[c].ok {
					continue
				}
				for n := 0; n < 4; n++ {
					if pr[n][c].ok && !want[n].ok {
						want[n] = dir{true, Multiply(pr[n][c].p, want[c].p)}
					}
				}
			}
		}
		for c := 0; c < 4; c++ {
			got, err := np.Price(com[c])
			if want[c].ok {
				v.Assert(err == nil, "connected-commodity-has-price")
				if err == nil {
					v.Assert(got.Equal(want[c].p), "price-is-chain-of-latest-declarations")
				}
				val, verr := np.Valuate(com[c], decimal.NewFromInt(3))
				v.Assert(verr == nil && val.Equal(Multiply(decimal.NewFromInt(3), want[c].p)), "valuate-uses-price")
			} else {
				v.Assert(err != nil, "unconnected-commodity-has-no-price")
				_, verr := np.Valuate(com[c], decimal.NewFromInt(3))
				v.Assert(verr != nil, "valuing-unconnected-commodity-fails")
			}
		}
	} else {
		// alternative paths: the shortest chain of latest declarations is used; among chains of equal
		// length the one through the commodity whose name sorts first (names: A < B < C < V)
		nameOrder := []int{1, 2, 3, 0}
		var bfs [4]dir
		bfs[0] = dir{true, one}
		queue := []int{0}
		for len(queue) > 0 {
			c := queue[0]
			queue = queue[1:]
			for _, n := range nameOrder {
				if pr[n][c].ok && !bfs[n].ok {
					bfs[n] = dir{true, Multiply(pr[n][c].p, bfs[c].p)}
					queue = append(queue, n)
				}
			}
		}
		for c := 1; c < 4; c++ {
			got, err := np.Price(com[c])
			if bfs[c].ok {
				v.Assert(err == nil && got.Equal(bfs[c].p), "price-is-shortest-chain-of-latest-declarations")
			} else {
				v.Assert(err != nil, "unconnected-commodity-has-no-price")
			}
		}
		// in particular a pair declared directly with V must be priced directly
		for c := 1; c < 4; c++ {
			got, err := np.Price(com[c])
			if pr[c][0].ok {
				v.Assert(err == nil, "connected-commodity-has-price")
				if err == nil {
					v.AssertExcept(got.Equal(pr[c][0].p), "direct-declaration-is-used", "C12-F1", true)
				}
			}
		}
	}
	pv, errv := np.Price(com[0])
	v.Assert(errv == nil && pv.Equal(one), "valuation-commodity-costs-1")
	v.Observe("pA", np[com[1]])
}
