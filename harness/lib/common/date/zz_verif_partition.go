package date

import (
	"time"

	v "github.com/sboehler/knut/lib/zzverif"
)

// VerifPartition: C11. Symbolic: start, end (any days of the anchor years),
// last, probe date. Concrete per instance: interval, anchor year window,
// bound on the window length in days.
func VerifPartition() {
	iv := Interval(v.Param("interval"))
	lo := v.Param("anchor")
	hi := lo + v.Param("span")
	maxDays := v.Param("maxdays")
	K := v.Param("K")

	start := v.Day("start", lo, hi)
	end := v.Day("end", lo, hi)
	last := v.Int("last", -1, K+1)
	probe := v.Day("probe", lo, hi)

	v.Assume(!start.IsZero())
	v.Assume(end.Before(start.AddDate(0, 0, maxDays))) // stated bound on the window length

	part := NewPartition(Period{Start: start, End: end}, iv, last)
	ss, es := part.StartDates(), part.EndDates()
	v.Assert(len(ss) == len(es) && len(ss) == part.Size(), "size")
	v.Assert(len(ss) <= K, "unwind-K") // unwinding assertion: maxdays and K must be consistent

	for i := range ss {
		if iv != Once {
			v.Assert(!es[i].Before(ss[i]), "non-empty")
			v.Assert(StartOf(ss[i], iv).Equal(StartOf(es[i], iv)), "no-straddle")
			if i > 0 {
				v.Assert(ss[i].Equal(StartOf(ss[i], iv)), "aligned-start")
			}
			if i < len(ss)-1 {
				v.Assert(es[i].Equal(EndOf(es[i], iv)), "aligned-end")
			}
		}
		if i > 0 {
			v.Assert(ss[i].Equal(es[i-1].AddDate(0, 0, 1)), "consecutive")
		}
	}
	if iv == Once {
		v.Assert(len(ss) == 1 && ss[0].Equal(start) && es[0].Equal(end), "once")
	} else if !end.Before(start) {
		v.Assert(len(es) > 0, "non-empty-window-has-periods")
		if len(es) > 0 {
			v.Assert(es[len(es)-1].Equal(end), "ends-at-window-end")
			if last <= 0 {
				v.Assert(ss[0].Equal(start), "starts-at-window-start")
			} else {
				v.Assert(len(ss) <= last, "last-upper")
				if len(ss) < last {
					v.Assert(ss[0].Equal(start), "last-exact")
				}
				// the first shown period is a complete calendar period unless it is clipped by the window start
				v.Assert(ss[0].Equal(start) || ss[0].Equal(StartOf(ss[0], iv)), "last-first-aligned")
				v.Assert(!ss[0].Before(start), "last-inside")
			}
		}
	} else {
		v.Assert(len(ss) == 0, "empty-window")
	}

	// attribution of dates
	got := part.Align()(probe)
	switch {
	case len(es) == 0 || probe.After(es[len(es)-1]):
		v.Assert(got.IsZero(), "align-after")
	case probe.Before(ss[0]):
		v.Assert(got.Equal(es[0]), "align-before")
	default:
		found := false
		for i := range ss {
			if !probe.Before(ss[i]) && !probe.After(es[i]) {
				v.Assert(got.Equal(es[i]), "align-in")
				found = true
			}
		}
		if iv != Once || !end.Before(start) {
			v.Assert(found, "align-covered")
		}
	}
	// Contains is the window, not the shown periods
	v.Assert(part.Contains(probe) == (!probe.Before(start) && !probe.After(end)), "contains")
	v.Observe("starts", ss)
	v.Observe("ends", es)
	v.Observe("align", got)
}

// VerifStartEnd: StartOf/EndOf against the civil definition, written with
// independent time arithmetic.
func VerifStartEnd() {
	iv := Interval(v.Param("interval"))
	lo := v.Param("anchor")
	hi := lo + v.Param("span")
	d := v.Day("d", lo, hi)
	s, e := StartOf(d, iv), EndOf(d, iv)
	v.Assert(!s.After(d) && !e.Before(d), "contains-d")
	switch iv {
	case Once, Daily:
		v.Assert(s.Equal(d) && e.Equal(d), "identity")
	case Weekly:
		v.Assert(s.Weekday() == time.Monday, "week-starts-monday")
		v.Assert(e.Weekday() == time.Sunday, "week-ends-sunday")
		v.Assert(e.Equal(s.AddDate(0, 0, 6)), "week-7-days")
	case Monthly:
		v.Assert(s.Day() == 1 && s.Month() == d.Month() && s.Year() == d.Year(), "month-start")
		v.Assert(e.AddDate(0, 0, 1).Day() == 1 && e.Month() == d.Month() && e.Year() == d.Year(), "month-end")
	case Quarterly:
		m := s.Month()
		v.Assert(s.Day() == 1 && (m == 1 || m == 4 || m == 7 || m == 10) && s.Year() == d.Year(), "quarter-start")
		v.Assert(d.Month() >= m && d.Month() <= m+2, "quarter-contains-month")
		n := e.AddDate(0, 0, 1)
		v.Assert(n.Day() == 1 && (n.Month() == 1 || n.Month() == 4 || n.Month() == 7 || n.Month() == 10), "quarter-end")
		v.Assert(e.Month() == m+2 && e.Year() == d.Year(), "quarter-end-month")
	case Yearly:
		v.Assert(s.Day() == 1 && s.Month() == 1 && s.Year() == d.Year(), "year-start")
		v.Assert(e.Day() == 31 && e.Month() == 12 && e.Year() == d.Year(), "year-end")
	}
	v.Observe("start", s)
	v.Observe("end", e)
}
