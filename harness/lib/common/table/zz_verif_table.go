package table

import (
	"strings"
	"unicode/utf8"

	"github.com/shopspring/decimal"

	v "github.com/sboehler/knut/lib/zzverif"
)

// VerifThousandsSep: C17 kernel A. e ranges over every string of the
// StringFixed grammar [-]d{ni}[.d{nf}] (all digits symbolic).
func VerifThousandsSep() {
	ni, nf, neg := v.Param("ni"), v.Param("nf"), v.Param("neg")
	e := ""
	if neg == 1 {
		e = "-"
	}
	e += v.Digits("i", ni)
	if nf > 0 {
		e += "." + v.Digits("f", nf)
	}
	got := addThousandsSep(e)
	first := neg         // index of the first integer digit in e
	intEnd := neg + ni   // index just after the integer part in e
	stripped := ""
	k := 0 // index into e
	commas := 0
	for j := 0; j < len(got); j++ {
		if got[j] == ',' {
			commas++
			v.Assert(k > first && k < intEnd && (intEnd-k)%3 == 0, "comma-only-at-thousands-positions")
			continue
		}
		stripped += got[j : j+1]
		k++
	}
	v.Assert(stripped == e, "removing-commas-gives-input")
	v.Assert(commas == (ni-1)/3, "every-thousands-position-has-a-comma")
	v.Observe("got", got)
}

// zzStrip removes padding blanks and thousands separators.
func zzStrip(s string) string {
	out := ""
	for i := 0; i < len(s); i++ {
		if s[i] != ' ' && s[i] != ',' {
			out += s[i : i+1]
		}
	}
	return out
}

// VerifNumberCell: C17 kernel B. The amount is a digit vector (sign, ni integer
// digits, nf fraction digits, all symbolic); Round and Thousands per instance.
func VerifNumberCell() {
	ni, nf := v.Param("ni"), v.Param("nf")
	p := v.Param("round")
	thousands := v.Param("thousands") == 1
	width := v.Param("width")

	txt := v.Digits("i", ni)
	if nf > 0 {
		txt += "." + v.Digits("f", nf)
	}
	if v.Bool("neg") {
		txt = "-" + txt
	}
	x, err := decimal.NewFromString(txt)
	v.Assume(err == nil)

	r := &TextRenderer{Round: int32(p), Thousands: thousands}
	var sb strings.Builder
	c := numberCell{n: x}
	min := r.minLengthCell(c)
	l := width
	if l < min {
		l = min // Render always passes a width >= minLengthCell
	}
	rerr := r.renderCell(c, l, &sb)
	v.Assert(rerr == nil, "render-no-error")
	out := sb.String()
	v.Assert(utf8.RuneCountInString(out) == l, "cell-has-column-width")

	t := zzStrip(out)
	if x.IsZero() {
		v.Assert(t == "", "zero-is-blank")
		return
	}
	v.Assert(t != "", "non-zero-is-not-blank")
	if t == "" {
		return
	}
	// right-aligned: padding only on the left
	v.Assert(out[len(out)-1] != ' ', "right-aligned")
	// shape: [-]digits[.digits{p}]
	body := t
	if body[0] == '-' {
		body = body[1:]
	}
	dot := strings.Index(body, ".")
	if p == 0 {
		v.Assert(dot < 0, "no-fraction-when-round-0")
	} else {
		v.Assert(dot >= 1 && len(body)-dot-1 == p, "exactly-round-fraction-digits")
	}
	n, perr := decimal.NewFromString(t)
	v.Assert(perr == nil, "cell-is-a-number")
	if perr != nil {
		return
	}
	// the underlying amount, divided by 1000 with --thousands (exact)
	y := x
	if thousands {
		y = x.Shift(-3)
	}
	// independent definition of "rounded half away from zero to p digits":
	// N = n*10^p is an integer with |y*10^p - N| < 1/2, or = 1/2 and |N| > |y*10^p|
	ys, ns := y.Shift(int32(p)), n.Shift(int32(p))
	diff := ys.Sub(ns).Abs()
	half := decimal.New(5, -1)
	v.Assert(diff.LessThan(half) || (diff.Equal(half) && ns.Abs().GreaterThan(ys.Abs())), "rounded-half-away-from-zero")
	// sign of the displayed value
	v.Assert((t[0] == '-') == n.IsNegative(), "minus-sign-iff-displayed-value-negative")
	// thousands separators are placed correctly (kernel A on the concrete-shaped string)
	v.Observe("cell", out)
}

var zzTexts = []string{"A", "Bäñk", "日本語", "Assets:Bank", ""}

// VerifRectangular: C17 kernel C. A table as the balance renderer builds it:
// header row, separator rows, rows of an indented text cell plus number cells.
func VerifRectangular() {
	cols := v.Param("cols")
	rows := v.Param("rows")
	p := v.Param("round")
	thousands := v.Param("thousands") == 1
	tbl := New(1, cols)
	tbl.AddSeparatorRow()
	h := tbl.AddRow().AddText("Account", Center)
	for j := 0; j < cols; j++ {
		h.AddText(zzTexts[v.Choice("hdr", 2)], Center)
	}
	tbl.AddSeparatorRow()
	// leading concrete rows (wide multi-byte name, negative amount with separators)
	for i := 0; i < v.Param("fixedrows"); i++ {
		row := tbl.AddRow().AddIndented("Bäñk:日本語", 2)
		for j := 0; j < cols; j++ {
			row.AddDecimal(decimal.RequireFromString("-1234567.891"))
		}
	}
	for i := 0; i < rows; i++ {
		row := tbl.AddRow().AddIndented(zzTexts[v.Choice("name", 4)], 2*v.Choice("indent", 2))
		for j := 0; j < cols; j++ {
			switch v.Choice("kind", 3) {
			case 0:
				row.AddEmpty()
			case 1:
				q := v.Decimal("q", v.Param("scale"))
				v.Assume(q.Abs().LessThan(decimal.New(1, int32(v.Param("maxdigits"))))) // stated bound on the magnitude
				row.AddDecimal(q)
			case 2:
				row.AddText(zzTexts[1+v.Choice("txt", 2)], Right)
			}
		}
	}
	tbl.AddEmptyRow()
	tbl.AddSeparatorRow()
	// amounts bounded so that digit vectors stay small (stated bound)
	r := &TextRenderer{Round: int32(p), Thousands: thousands}
	var sb strings.Builder
	err := r.Render(tbl, &sb)
	v.Assert(err == nil, "render-no-error")
	out := sb.String()
	lines := strings.Split(out, "\n")
	v.Assert(len(lines) == rows+v.Param("fixedrows")+5+2 && lines[len(lines)-1] == "" && lines[len(lines)-2] == "", "line-count")
	w0 := -1
	var seps0 []int
	for li := 0; li < len(lines)-2; li++ {
		line := lines[li]
		w := 0
		var seps []int
		for i := 0; i < len(line); {
			_, sz := utf8.DecodeRuneInString(line[i:])
			if line[i] == '|' || line[i] == '+' {
				seps = append(seps, w)
			}
			i += sz
			w++
		}
		if w0 < 0 {
			w0, seps0 = w, seps
			continue
		}
		v.Assert(w == w0, "all-lines-same-width")
		v.Assert(len(seps) == len(seps0), "same-number-of-separators")
		if len(seps) == len(seps0) {
			for k := range seps {
				v.Assert(seps[k] == seps0[k], "separators-aligned")
			}
		}
	}
	v.Observe("out", out)
}

// VerifCSVCell: C17 kernel D. The CSV cell of an amount is its exact text.
func VerifCSVCell() {
	x := v.Decimal("q", v.Param("scale"))
	s, err := (&CSVRenderer{}).renderCell(numberCell{n: x})
	v.Assert(err == nil && s == x.String(), "csv-cell-is-exact-amount")
	s2, err2 := (&CSVRenderer{}).renderCell(textCell{Content: "Assets:Bänk"})
	v.Assert(err2 == nil && s2 == "Assets:Bänk", "csv-text-cell")
	s3, err3 := (&CSVRenderer{}).renderCell(emptyCell{})
	v.Assert(err3 == nil && s3 == "", "csv-empty-cell")
}

var zzCSVHazards = []string{"1234567890123456.789", "999999999999999.99999999", "0.00000001", "-0.1", "100", "-12345678901234567890.12345678", "0.30000000000000004"}

// VerifCSVCellConcrete: hazard amounts through the CSV cell (conversions via
// binary floating point cannot be executed symbolically; these concrete cases
// complement VerifCSVCell).
func VerifCSVCellConcrete() {
	d := decimal.RequireFromString(zzCSVHazards[v.Param("i")])
	s, err := (&CSVRenderer{}).renderCell(numberCell{n: d})
	v.Assert(err == nil, "csv-no-error")
	back, perr := decimal.NewFromString(s)
	v.Assert(perr == nil && back.Equal(d), "csv-cell-is-exact-amount")
}

// VerifCSVRows: C17 kernel D2. The CSV rendering carries the amounts in the same
// row and column positions as the table: rows without any content are skipped,
// continuation rows (empty first cell) are kept.
func VerifCSVRows() {
	tbl := New(1, 1, 2)
	tbl.AddSeparatorRow()
	tbl.AddRow().AddText("Account", Center).AddText("Comm", Center).AddText("2020-01-31", Center).AddText("2020-02-29", Center)
	tbl.AddSeparatorRow()
	a := []decimal.Decimal{decimal.RequireFromString("12.12345678"), decimal.RequireFromString("-3"), decimal.RequireFromString("0"), decimal.RequireFromString("1000000.5")}
	first := v.Choice("first", 2) // which kind of cell starts the continuation row
	tbl.AddRow().AddIndented("Assets", 0).AddText("CHF", Left).AddDecimal(a[0]).AddDecimal(a[1])
	cont := tbl.AddRow()
	if first == 0 {
		cont.AddEmpty()
	} else {
		cont.AddText("", Left)
	}
	cont.AddText("USD", Left).AddDecimal(a[2]).AddDecimal(a[3])
	tbl.AddEmptyRow()
	tbl.AddRow().AddIndented("Bank", 2).FillEmpty()
	tbl.AddSeparatorRow()
	var sb strings.Builder
	err := (&CSVRenderer{}).Render(tbl, &sb)
	v.Assert(err == nil, "csv-render-no-error")
	lines := strings.Split(strings.TrimSuffix(sb.String(), "\n"), "\n")
	want := []string{"Account,Comm,2020-01-31,2020-02-29", "Assets,CHF,12.12345678,-3", ",USD,0,1000000.5", "Bank,,,"}
	v.Assert(len(lines) == len(want), "csv-has-one-record-per-row-with-content")
	if len(lines) == len(want) {
		for i := range want {
			v.Assert(lines[i] == want[i], "csv-record-carries-the-row-cells-in-position")
		}
	}
}
