package table

import "github.com/shopspring/decimal"

// ZZCell is a read-only view of a table cell for harnesses in other packages.
type ZZCell struct {
	Kind   int // 0 empty, 1 separator, 2 text, 3 number, 4 percent
	Text   string
	Indent int
	N      decimal.Decimal
}

// ZZRows returns the cells of a table.
func ZZRows(t *Table) [][]ZZCell {
	var res [][]ZZCell
	for _, r := range t.rows {
		var row []ZZCell
		for _, c := range r.cells {
			switch x := c.(type) {
			case emptyCell:
				row = append(row, ZZCell{Kind: 0})
			case SeparatorCell:
				row = append(row, ZZCell{Kind: 1})
			case textCell:
				row = append(row, ZZCell{Kind: 2, Text: x.Content, Indent: x.Indent})
			case numberCell:
				row = append(row, ZZCell{Kind: 3, N: x.n})
			case percentCell:
				row = append(row, ZZCell{Kind: 4})
			}
		}
		res = append(res, row)
	}
	return res
}
