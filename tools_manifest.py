#!/usr/bin/env python3
"""Regenerates MANIFEST.json from the table below (kept in one place so it stays valid)."""
import json
props=[json.loads(l) for l in open('/verif/properties.jsonl')]
ids=[p['id'] for p in props]
TECH="bounded symbolic execution of the real Go SSA (go/ssa) with z3 deciding pc ∧ ¬assertion on every path; counterexamples replayed natively"
claimed={
 "C10":dict(text="Bounded model checking by symbolic execution: transaction.expand, date.NewPartition/StartOf/EndOf and posting.Builder.Build are executed from /repo's SSA with the booked quantity (unbounded coefficient, fixed scale), the window start/end days and the transaction date symbolic; z3 decides every conservation/dating assertion on every path. Holds for all values inside the stated bounds (<=2 bookings, <=K periods, anchor years); not a proof beyond them.",
            note="Trusted: decimal and time stubs (validated against the libraries by setup self-tests), z3. Outside: >2 bookings, windows beyond maxdays/K periods, non-anchor years. Known finding C10-F15 (equity legs dropped) is carved out by signature.", ref="DESIGN.md §6 C10"),
 "C11":dict(text="Bounded model checking by symbolic execution of date.NewPartition/StartOf/EndOf/Align/Contains from /repo's SSA with start, end, probe date and --last symbolic; z3 decides partition, alignment, calendar-boundary and attribution assertions on every path; StartOf/EndOf are checked against an independent civil definition. Holds for all dates of the anchor years and windows up to the stated number of periods.",
            note="Trusted: time stub (UTC day numbers; validated against package time on all days of years 1-9999), z3. Outside: windows with more than K periods, years outside the anchor windows (400-year periodicity argument only).", ref="DESIGN.md §6 C11"),
 "C07":dict(text="Bounded model checking by symbolic execution of the real scanner and parser (scanner.*, parser.*, directives.Range/Error) from /repo's SSA on input strings whose bytes are all symbolic (every byte string up to length n) and on directive templates with holes of k fully symbolic bytes; z3 decides no-panic, error-range, tree-containment, ordering, text-identity and gap (whitespace/comment only) assertions on every path; unicode/utf8 decoding is interpreted from the standard library source.",
            note="Trusted: exact SMT predicates for unicode.IsLetter/IsDigit generated from the toolchain tables; fmt message text with symbolic operands is abstract; ASCII fast path of utf8.DecodeRuneInString; z3 5.1.0. Outside: strings longer than n (quick 4, thorough 6) that are not instances of the 18 templates with k<=2 (thorough 3) symbolic bytes; very long tokens.", ref="DESIGN.md §6 C07"),
 "C17":dict(text="Bounded model checking by symbolic execution of table.addThousandsSep, TextRenderer.numToString/renderCell/minLengthCell/Render and CSVRenderer.renderCell from /repo's SSA. Kernel A: every string [-]d{ni}[.d{nf}] (all digits symbolic). Kernel B: amount as a symbolic digit vector, cell text re-parsed and compared with an independent definition of half-away-from-zero rounding, width, blank-zero and sign. Kernel C: rendered tables (symbolic amounts, catalogue of multi-byte names chosen by forking) are rectangular with aligned separators. Kernel D: CSV cell is the exact amount (symbolic token equality + concrete 17-digit hazards).",
            note="Trusted: decimal stub (incl. digit-vector StringFixed as a definitional extension), fatih/color modelled as plain Fprintf, z3. Outside: percent cells (float64), amounts beyond the stated digit counts, tables beyond the stated shapes, csv.Writer quoting.", ref="DESIGN.md §6 C17"),
 "C12":dict(text="Bounded model checking by symbolic execution of price.Prices.Insert/addPrice/Normalize/normalize, NormalizedPrices.Price/Valuate and price.Multiply from /repo's SSA over price graphs on <= 4 commodities (direct, inverse, chains <= 3, star, disconnected, redeclarations, triangle, square) with the declared prices, the declaration order and every hash-map iteration order symbolic; the oracle recomputes the price along the unique chain of latest declarations. z3 decides every assertion on every path.",
            note="Trusted: decimal stub, z3. Known finding C12-F1 (alternative paths priced in map order) is carved out by signature (graph has a cycle). Outside: graphs > 4 commodities; sym*sym products in cyclic graphs; the V==commodity shortcut of journal.Valuate (C03).", ref="DESIGN.md §6 C12"),
}
na_reason={
 "C19":"goroutine interleavings of real sync/context/conc code cannot be encoded by the sequential SSA executor (no Go scheduler model); see DESIGN.md §7",
 "C20":"float64 analytics: symbolic floating point of even a one-day return is not decided within 60 s by z3 4.8.12, z3 5.1.0 or cvc5; see DESIGN.md §7",
}
checks=[]
for i in ids:
    if i in claimed:
        c=claimed[i]
        checks.append({"property_id":i,"quick_cmd":"./check %s quick"%i,"thorough_cmd":"./check %s thorough"%i,
          "evidence_file":"evidence/%s.json"%i,"replay_cmd_template":"./check %s --replay {path}"%i,"engine":"symgo",
          "level_claimed":{"category":"model_checking","text":c["text"],"design_ref":c["ref"]},"level_note":c["note"],"technique":TECH})
na=[{"property_id":i,"reason":na_reason.get(i,"check not built yet in this session (engine exists; harness pending) — see DESIGN.md §9 build order")} for i in ids if i not in claimed]
m={"version":1,"setup_cmd":"./setup.sh",
 "hooks":{"guard":"verif","enable":"no hooks in /repo: harnesses and the zzverif runtime are injected with go/packages and `go test -overlay` overlays (DESIGN.md §8)","baseline_off_cmd":"cd /repo && GOFLAGS=-mod=mod GOPROXY=off go test -vet=off -count=1 ./...","source_commits":[],"add_only":True},
 "engines":[{"name":"symgo","path":"engine/","serves_properties":sorted(claimed),"kind_free_text":"symbolic executor for Go SSA written for this task (engine/sym): values may be SMT terms (BitVec/Int/Real), DFS by re-execution, one z3 process per harness instance with push/pop, native replay of counterexamples and path witnesses"}],
 "checks":checks,"not_applicable":na,
 "notes":"All checks: exit 0 = every obligation unsat within bounds; exit 1 + VIOLATION line = counterexample reproduced natively; exit 2 = inconclusive (solver unknown, unwinding failure, unsupported construct, non-reproducing counterexample)."}
json.dump(m,open('/verif/MANIFEST.json','w'),indent=1,ensure_ascii=False)
print(len(checks),"checks;",len(na),"n/a")
