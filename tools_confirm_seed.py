#!/usr/bin/env python3
"""Confirm a sub-agent's seeded change independently and store it under /verif/seeded/<id>-m<k>/.

usage: tools_confirm_seed.py C11 1 [C11 2 ...]
For each (property, k): in a fresh scratch worktree of /repo (removed afterwards)
  1. the patch applies, `go build ./...` works, the full unedited test suite passes with it;
  2. the demonstration FAILS with the patch and PASSES without it.
Only then is /verif/seeded/<id>-m<k>/ written (patch.diff, demo, NOTES.md, meta.json).
"""
import json, os, re, shutil, subprocess, sys, tempfile

ENV = dict(os.environ, GOFLAGS="-mod=mod", GOPROXY="off", GOSUMDB="off", GOTOOLCHAIN="local")

def sh(cmd, cwd=None, timeout=1200):
    try:
        p = subprocess.run(cmd, shell=True, cwd=cwd, env=ENV, stdout=subprocess.PIPE, stderr=subprocess.STDOUT, timeout=timeout, text=True, errors="replace")
        return p.returncode, p.stdout
    except subprocess.TimeoutExpired as e:
        return 124, (e.stdout or "") + "\nTIMEOUT"

def run_demo(src, wt, notes):
    """returns (rc, how)"""
    if os.path.exists(os.path.join(src, "demo.sh")):
        rc, out = sh("sh %s %s" % (os.path.join(src, "demo.sh"), wt), timeout=1500)
        if rc not in (0, 1) and "bash" in out.lower() or rc == 2:
            rc, out = sh("bash %s %s" % (os.path.join(src, "demo.sh"), wt), timeout=1500)
        return rc, "demo.sh <checkout>", out[-600:]
    if os.path.exists(os.path.join(src, "demo_test.go")):
        m = re.search(r"go test[^\n`]*?(\./[A-Za-z0-9_/]+)", notes)
        pkg = m.group(1).rstrip("/") if m else None
        mr = re.search(r"-run\s+'?\"?\^?([A-Za-z0-9_]+)", notes)
        runpat = mr.group(1) if mr else "."
        if not pkg:
            return 99, "no package dir found in NOTES.md", ""
        dst = os.path.join(wt, pkg, "zz_demo_test.go")
        shutil.copy(os.path.join(src, "demo_test.go"), dst)
        rc, out = sh("go test -vet=off -count=1 -run '%s' %s" % (runpat, pkg), cwd=wt)
        os.remove(dst)
        return rc, "demo_test.go copied to %s; go test -run %s %s" % (pkg, runpat, pkg), out[-600:]
    return 99, "no demo", ""

ROOT = os.environ.get("MUT_ROOT", "/tmp/mut")
TAG = os.environ.get("MUT_TAG", "")

def confirm(pid, k):
    src = "%s/%s/out/m%s" % (ROOT, pid, k)
    if not os.path.exists(os.path.join(src, "patch.diff")):
        return {"ok": False, "why": "no patch"}
    notes = open(os.path.join(src, "NOTES.md")).read() if os.path.exists(os.path.join(src, "NOTES.md")) else ""
    wt = tempfile.mkdtemp(prefix="seedwt-")
    os.rmdir(wt)
    res = {"property": pid, "mutant": "m%s" % k}
    try:
        rc, out = sh("git -C /repo worktree add -q --detach %s HEAD" % wt)
        if rc != 0:
            return {"ok": False, "why": "worktree: " + out}
        rc, out = sh("git apply %s" % os.path.join(src, "patch.diff"), cwd=wt)
        res["applies"] = rc == 0
        if rc != 0:
            res.update(ok=False, why="patch does not apply: " + out[-300:])
            return res
        rc, out = sh("go build ./... && go test -vet=off -count=1 ./...", cwd=wt)
        res["build_and_suite_pass_with_patch"] = rc == 0
        if rc != 0:
            res.update(ok=False, why="suite fails with patch: " + out[-400:])
            return res
        rc1, how, out1 = run_demo(src, wt, notes)
        res["demo"] = how
        res["demo_rc_with_patch"] = rc1
        sh("git checkout -- . && git clean -fdq", cwd=wt)
        rc0, _, out0 = run_demo(src, wt, notes)
        res["demo_rc_clean"] = rc0
        res["ok"] = (rc1 not in (0, 99, 124)) and rc0 == 0
        if not res["ok"]:
            res["why"] = "demo does not discriminate: patched rc=%s (%s) clean rc=%s (%s)" % (rc1, out1[-200:], rc0, out0[-200:])
        return res
    finally:
        sh("git -C /repo worktree remove --force %s" % wt)
        shutil.rmtree(wt, ignore_errors=True)

def main():
    args = sys.argv[1:]
    for i in range(0, len(args), 2):
        pid, k = args[i], args[i + 1]
        r = confirm(pid, k)
        print(json.dumps(r))
        sys.stdout.flush()
        if r.get("ok"):
            src = "%s/%s/out/m%s" % (ROOT, pid, k)
            dst = "/verif/seeded/%s-%sm%s" % (pid, TAG, k)
            os.makedirs(dst, exist_ok=True)
            for f in ("patch.diff", "demo.sh", "demo_test.go", "NOTES.md"):
                if os.path.exists(os.path.join(src, f)):
                    shutil.copy(os.path.join(src, f), os.path.join(dst, f))
            notes = open(os.path.join(src, "NOTES.md")).read() if os.path.exists(os.path.join(src, "NOTES.md")) else ""
            meta = {
                "id": "%s-%sm%s" % (pid, TAG, k),
                "breaks_property": pid,
                "source": "independent sub-agent given only the property text and a scratch worktree",
                "needs_to_manifest": notes[:1500],
                "confirmed_by_me": {
                    "scratch_worktree": "fresh git worktree of /repo under /tmp, removed afterwards",
                    "patch_applies": r["applies"],
                    "go_build_and_full_suite_pass_with_patch": r["build_and_suite_pass_with_patch"],
                    "demo": r["demo"],
                    "demo_exit_with_patch": r["demo_rc_with_patch"],
                    "demo_exit_on_clean_tree": r["demo_rc_clean"],
                },
                "detected_by": "see DESIGN.md §16 (filled in by tools_mutcheck runs)",
            }
            json.dump(meta, open(os.path.join(dst, "meta.json"), "w"), indent=1)

main()
