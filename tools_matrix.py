#!/usr/bin/env python3
"""Runs every seeded change against the checks (on a scratch worktree of /repo, removed afterwards)
and writes /verif/seeded/MATRIX.md plus detected_by into each meta.json.
usage: tools_matrix.py [ids...]   (default: all)"""
import json, os, re, subprocess, sys, tempfile, shutil, glob
ENV = dict(os.environ, GOFLAGS="-mod=mod", GOPROXY="off", GOSUMDB="off", GOTOOLCHAIN="local")
# which checks to try for a mutant besides its own property
ALSO = {"C06-r4m1": ["C15"], "C06-r4m2": ["C12"], "C05-r4m2": ["C14"], "C14-r4m2": ["C04", "C09"], "C03-r3m3": ["C11", "C02"], "C14-r3m1": ["C02"], "C05-r3m1": ["C14"], "C06-r2m3": ["C15"], "C14-r2m3": ["C05"], "C04-m3": ["C01"], "C12-m3": ["C01", "C03"], "C16-m1": ["C04"], "C06-m1": ["C05"], "C15-m3": ["C15", "C18"], "C10-m3": ["C11"], "C01-m1": ["C16", "C03"]}
def sh(cmd, cwd=None, env=ENV, timeout=2400):
    try:
        p = subprocess.run(cmd, shell=True, cwd=cwd, env=env, stdout=subprocess.PIPE, stderr=subprocess.STDOUT, timeout=timeout, text=True, errors="replace")
        return p.returncode, p.stdout
    except subprocess.TimeoutExpired as e:
        return 124, "TIMEOUT"
def main():
    ids = sys.argv[1:] or sorted(os.path.basename(d.rstrip('/')) for d in glob.glob('/verif/seeded/C*-*m*/'))
    rows = []
    for mid in ids:
        d = '/verif/seeded/' + mid
        wt = tempfile.mkdtemp(prefix='mwt-'); os.rmdir(wt)
        sh("git -C /repo worktree add -q --detach %s HEAD" % wt)
        try:
            patch = d + '/patch_on_fixed_tree.diff' if os.path.exists(d + '/patch_on_fixed_tree.diff') else d + '/patch.diff'
            rc, out = sh("git apply %s" % patch, cwd=wt)
            if rc != 0:
                rows.append((mid, "-", "patch applies only to the pinned commit 7578f18 (before the fix: commits); detection recorded before the fixes", ""))
                continue
            prop = mid.split('-')[0]
            results = []
            for chk in [prop] + [c for c in ALSO.get(mid, []) if c != prop]:
                if not os.path.exists('/verif/checks/%s.json' % chk):
                    continue
                ev = '/verif/evidence/%s.json' % chk   # the evidence file belongs to runs on /repo itself: keep it
                saved = open(ev).read() if os.path.exists(ev) else None
                rc, out = sh("/verif/check %s quick" % chk, env=dict(ENV, VERIF_REPO=wt))
                if saved is not None:
                    open(ev, 'w').write(saved)
                labels = sorted(set(re.findall(r"label=(\S+)", out)))
                verdict = {0: "MISSED", 1: "DETECTED", 2: "INCONCLUSIVE"}.get(rc, "rc=%d" % rc)
                results.append((chk, verdict, labels[:3]))
                if rc == 1:
                    break
            rows.append((mid, results[-1][0] if results else "-", "; ".join("%s %s %s" % (c, v, ",".join(l)) for c, v, l in results), ""))
            meta_p = d + '/meta.json'
            if os.path.exists(meta_p):
                m = json.load(open(meta_p))
                m["detected_by"] = [{"check": c, "verdict": v, "assertion_labels": l} for c, v, l in results]
                json.dump(m, open(meta_p, 'w'), indent=1)
            print(mid, results, flush=True)
        finally:
            sh("git -C /repo worktree remove --force %s" % wt)
            shutil.rmtree(wt, ignore_errors=True)
    full = not sys.argv[1:]
    with open('/verif/seeded/MATRIX.md', 'w' if full else 'a') as f:
        if full:
            f.write("# Seeded changes x checks\n\nWritten by tools_matrix.py: every seeded change is applied to a scratch worktree of /repo (HEAD, i.e. the repaired tree) and the quick tier of its property's check (and of the checks listed in ALSO) is run against it with VERIF_REPO. DETECTED = exit 1 with a natively reproduced counterexample; MISSED = exit 0; INCONCLUSIVE = exit 2.\n\n| seeded change | caught by | detail (quick tier, repaired tree) |\n|---|---|---|\n")
        for r in rows:
            f.write("| %s | %s | %s |\n" % (r[0], r[1], r[2]))
main()
