#!/bin/sh
# tools_try.sh <seeded-id> [check-id]: run one seeded change against a check on a scratch worktree
m="$1"; p="${2:-${m%%-*}}"
wt=$(mktemp -d -u /tmp/rq-XXXX)
patch=/verif/seeded/$m/patch.diff
[ -f /verif/seeded/$m/patch_on_fixed_tree.diff ] && patch=/verif/seeded/$m/patch_on_fixed_tree.diff
git -C /repo worktree add -q --detach $wt HEAD || exit 3
if git -C $wt apply $patch 2>/dev/null; then
  # the evidence file belongs to runs on /repo itself: keep it
  cp /verif/evidence/$p.json /tmp/try.ev.$$ 2>/dev/null
  VERIF_REPO=$wt timeout 1500 /verif/check $p quick > /tmp/try.$$ 2>&1; rc=$?
  [ -f /tmp/try.ev.$$ ] && mv /tmp/try.ev.$$ /verif/evidence/$p.json
  labels=$(grep -o "label=[^ ]*" /tmp/try.$$ | sort -u | head -3 | tr '\n' ' ')
  echo "$m via $p: exit=$rc $labels $(grep -c INCONCLUSIVE /tmp/try.$$ | sed 's/^/inconclusive-blocks=/')"
  rm -f /tmp/try.$$
else
  echo "$m: patch does not apply to HEAD"
fi
git -C /repo worktree remove --force $wt
