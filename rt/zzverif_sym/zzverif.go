// Package zzverif (symbolic variant): signatures only. Every function is
// intercepted by the symbolic executor; the bodies are never executed. The
// native variant with the same API is /verif/rt/zzverif/zzverif.go.
package zzverif

import (
	"time"

	"github.com/shopspring/decimal"
)

func Symbolic() bool                                              { return true }
func Param(name string) int                                       { return 0 }
func Bool(name string) bool                                       { return false }
func Int(name string, lo, hi int) int                             { return 0 }
func Byte(name string) byte                                       { return 0 }
func Bytes(name string, n int) string                             { return "" }
func Digits(name string, n int) string                            { return "" }
func Decimal(name string, scale int) decimal.Decimal              { return decimal.Decimal{} }
func Day(name string, loYear, hiYear int) time.Time               { return time.Time{} }
func Choice(name string, n int) int                               { return 0 }
func Perm(name string, n int) []int                               { return nil }
func MapOrder(on bool)                                            {}
// MapOrderMax: only maps with at most n entries are iterated in every order (default 4).
func MapOrderMax(n int) {}

// MapOrderSite: only the site-th range-over-map instruction of knut's code iterates in every order, for its first `budget` executions.
func MapOrderSite(site, budget int) {}

func Concrete(x int) int                                          { return x }
func Assume(c bool)                                               {}
func Assert(c bool, label string)                                 {}
func AssertExcept(c bool, label, finding string, signature bool)  {}
func Try(f func()) (panicked bool, msg string)                    { return false, "" }
func Override(target string, fn any)                              {}
func Observe(label string, v any)                                 {}
func ExitAfterCase()                                              {}

// file-system model (C18); see engine/sym/fs.go
func FSPath(name string) string              { return name }
func FSWrite(name, content string)           {}
func FSRead(name string) (string, bool)      { return "", false }
func FSArm(op int, k int, crash bool)        {}
func FSOps() int                             { return 0 }
func FSWrites(name string) int               { return 0 }
func FSOthers() int                          { return 0 }
func FSSymlink(name string)                  {}
func CaptureStdout(f func()) string          { return "" }
