// Package zzverif is the harness runtime of /verif (never committed to /repo;
// injected by overlay as github.com/sboehler/knut/lib/zzverif).
//
// Under the symbolic executor every function below is intercepted by name and
// its body is never run. Compiled natively (go test -overlay) the bodies
// implement *replay mode*: inputs come from a model file written by the
// executor, so that a counterexample or a path witness can be re-run against
// the real code.
package zzverif

import (
	"encoding/json"
	"fmt"
	"os"
	"os/signal"
	"path/filepath"
	"reflect"
	"syscall"
	"strings"
	"testing"
	"time"

	"github.com/shopspring/decimal"
)

type input struct {
	Name  string `json:"name"`
	Kind  string `json:"kind"`
	Aux   int    `json:"aux,omitempty"`
	Value string `json:"value"`
}

// Case is one concrete run requested by the executor.
type Case struct {
	ID      string         `json:"id"`
	Harness string         `json:"harness"`
	Params  map[string]int `json:"params"`
	Inputs  []input        `json:"inputs"`
}

// Result is what the native run observed.
type Result struct {
	ID        string            `json:"id"`
	Failed    []string          `json:"failed"`          // labels of failed assertions
	Known     []string          `json:"known"`           // labels failed inside a known-finding signature
	Panic     string            `json:"panic,omitempty"` // escaped panic
	AssumeBad bool              `json:"assume_bad"`      // an Assume was false: model does not follow the path
	Desync    string            `json:"desync,omitempty"`
	Observed  map[string]string `json:"observed"`
}

type state struct {
	c    Case
	pos  int
	res  *Result
	seen map[string]int
	obsN map[string]int
}

var cur *state

type assumeFailed struct{}

func (s *state) uniq(name string) string {
	n := s.seen[name]
	s.seen[name] = n + 1
	if n == 0 {
		return name
	}
	return fmt.Sprintf("%s#%d", name, n)
}

func next(name, kind string) input {
	if cur == nil {
		panic("zzverif: no replay case active")
	}
	nm := cur.uniq(name)
	if cur.pos >= len(cur.c.Inputs) {
		if cur.res.Desync == "" {
			cur.res.Desync = fmt.Sprintf("input %q (%s) requested beyond the %d recorded inputs", nm, kind, len(cur.c.Inputs))
		}
		return input{Name: nm, Kind: kind, Value: "0"}
	}
	in := cur.c.Inputs[cur.pos]
	cur.pos++
	if in.Name != nm || in.Kind != kind {
		if cur.res.Desync == "" {
			cur.res.Desync = fmt.Sprintf("input %d: recorded %s/%s, requested %s/%s", cur.pos-1, in.Name, in.Kind, nm, kind)
		}
	}
	return in
}

func atoi(s string) int {
	var v int
	fmt.Sscanf(s, "%d", &v)
	return v
}

func Symbolic() bool { return false }

func Param(name string) int {
	v, ok := cur.c.Params[name]
	if !ok {
		panic("zzverif: parameter not set: " + name)
	}
	return v
}

func Bool(name string) bool { return next(name, "bool").Value == "true" }

func Int(name string, lo, hi int) int { return atoi(next(name, "int").Value) }

func Byte(name string) byte { return byte(atoi(next(name, "byte").Value)) }

func Bytes(name string, n int) string {
	b := make([]byte, n)
	for i := range b {
		b[i] = byte(atoi(next(fmt.Sprintf("%s[%d]", name, i), "byte").Value))
	}
	return string(b)
}

func Digits(name string, n int) string {
	b := make([]byte, n)
	for i := range b {
		b[i] = byte('0' + atoi(next(fmt.Sprintf("%s[%d]", name, i), "digit").Value))
	}
	return string(b)
}

func Decimal(name string, scale int) decimal.Decimal {
	in := next(name, "decimal")
	d, err := decimal.NewFromString(in.Value)
	if err != nil {
		panic("zzverif: bad decimal in model: " + in.Value)
	}
	return d
}

func Day(name string, loYear, hiYear int) time.Time {
	in := next(name, "day")
	var y, m, d int
	neg := strings.HasPrefix(in.Value, "-")
	fmt.Sscanf(strings.TrimPrefix(in.Value, "-"), "%d-%d-%d", &y, &m, &d)
	if neg {
		y = -y
	}
	return time.Date(y, time.Month(m), d, 0, 0, 0, 0, time.UTC)
}

func Choice(name string, n int) int {
	if n <= 1 {
		return 0
	}
	return atoi(next(name, "choice").Value)
}

func Perm(name string, n int) []int {
	rest := make([]int, n)
	for i := range rest {
		rest[i] = i
	}
	out := make([]int, 0, n)
	for len(rest) > 1 {
		c := Choice(name, len(rest))
		out = append(out, rest[c])
		rest = append(rest[:c], rest[c+1:]...)
	}
	return append(out, rest...)
}

// MapOrder has no native effect: Go's own map iteration order applies.
func MapOrder(on bool) {}

// MapOrderMax: only maps with at most n entries are iterated in every order (default 4).
func MapOrderMax(n int) {}

// MapOrderSite: only the site-th range-over-map instruction of knut's code iterates in every order, for its first `budget` executions.
func MapOrderSite(site, budget int) {}

func Concrete(x int) int { return x }

func Assume(c bool) {
	if !c {
		cur.res.AssumeBad = true
		panic(assumeFailed{})
	}
}

func Assert(c bool, label string) {
	if !c {
		cur.res.Failed = append(cur.res.Failed, label)
	}
}

// activeFindings: ids with status "known" in /verif/known_findings.json (passed by the executor);
// the signature of a fixed finding suppresses nothing.
func findingActive(id string) bool {
	for _, f := range strings.Split(os.Getenv("ZZVERIF_KNOWN"), ",") {
		if f == id {
			return true
		}
	}
	return false
}

func AssertExcept(c bool, label, finding string, signature bool) {
	if !c {
		if signature && findingActive(finding) {
			cur.res.Known = append(cur.res.Known, label+"@"+finding)
		} else {
			cur.res.Failed = append(cur.res.Failed, label)
		}
	}
}

func Try(f func()) (panicked bool, msg string) {
	defer func() {
		if p := recover(); p != nil {
			if _, ok := p.(assumeFailed); ok {
				panic(p)
			}
			panicked, msg = true, fmt.Sprint(p)
		}
	}()
	f()
	return false, ""
}

func Override(target string, fn any) {}

func render(v reflect.Value) string {
	if !v.IsValid() {
		return "<nil>"
	}
	if v.CanInterface() {
		switch x := v.Interface().(type) {
		case decimal.Decimal:
			return x.String()
		case time.Time:
			return x.Format("2006-01-02")
		}
	}
	switch v.Kind() {
	case reflect.Bool:
		return fmt.Sprint(v.Bool())
	case reflect.Int, reflect.Int8, reflect.Int16, reflect.Int32, reflect.Int64:
		return fmt.Sprint(v.Int())
	case reflect.Uint, reflect.Uint8, reflect.Uint16, reflect.Uint32, reflect.Uint64, reflect.Uintptr:
		return fmt.Sprint(v.Uint())
	case reflect.Float32, reflect.Float64:
		return fmt.Sprint(v.Float())
	case reflect.String:
		return fmt.Sprintf("b\"%x\"", v.String())
	case reflect.Slice, reflect.Array:
		parts := make([]string, v.Len())
		for i := range parts {
			parts[i] = render(v.Index(i))
		}
		return "[" + strings.Join(parts, " ") + "]"
	case reflect.Struct:
		parts := make([]string, v.NumField())
		for i := range parts {
			parts[i] = render(v.Field(i))
		}
		return "{" + strings.Join(parts, " ") + "}"
	case reflect.Interface, reflect.Pointer:
		if v.IsNil() {
			return "<nil>"
		}
		return render(v.Elem())
	}
	return "<" + v.Type().String() + ">"
}

// ExitAfterCase: the case has left goroutines behind that never end (a loader that does
// not terminate); the replay process writes the results it has and exits after this case.
func ExitAfterCase() { exitAfterCase = true }

var exitAfterCase bool

func Observe(label string, v any) {
	n := cur.obsN[label]
	cur.obsN[label] = n + 1
	if n > 0 {
		label = fmt.Sprintf("%s#%d", label, n)
	}
	cur.res.Observed[label] = render(reflect.ValueOf(v))
}

// ---- file system (C18): natively the real file system in a scratch directory; the only fault that
// can be injected is "the write is cut short after k bytes" (RLIMIT_FSIZE = k). ----

var (
	fsDir     string
	fsLimited bool
	fsOld     syscall.Rlimit
)

func fsdir() string {
	if fsDir == "" {
		fsDir, _ = os.MkdirTemp("", "zzverif-fs-")
	}
	return fsDir
}

func FSPath(name string) string { return filepath.Join(fsdir(), name) }

func FSWrite(name, content string) {
	os.MkdirAll(filepath.Dir(FSPath(name)), 0o755)
	os.WriteFile(FSPath(name), []byte(content), 0o644)
}

// FSSymlink turns the file into a symbolic link to a file with the same content.
func FSSymlink(name string) {
	p := FSPath(name)
	os.Rename(p, p+".data")
	os.Symlink(p+".data", p)
}

func FSRead(name string) (string, bool) {
	b, err := os.ReadFile(FSPath(name))
	return string(b), err == nil
}

func fsRestore() {
	if fsLimited {
		syscall.Setrlimit(syscall.RLIMIT_FSIZE, &fsOld)
		fsLimited = false
	}
}

func FSArm(op int, k int, crash bool) {
	fsRestore()
	if op < 0 {
		return
	}
	if crash {
		cur.res.Desync = "a crash point cannot be injected natively"
		return
	}
	signal.Ignore(syscall.SIGXFSZ)
	syscall.Getrlimit(syscall.RLIMIT_FSIZE, &fsOld)
	lim := fsOld
	lim.Cur = uint64(k)
	if syscall.Setrlimit(syscall.RLIMIT_FSIZE, &lim) == nil {
		fsLimited = true
	}
}

// CaptureStdout runs f with os.Stdout redirected and returns what was written.
func CaptureStdout(f func()) string {
	old := os.Stdout
	r, w, err := os.Pipe()
	if err != nil {
		panic(err)
	}
	os.Stdout = w
	done := make(chan string)
	go func() {
		var sb strings.Builder
		buf := make([]byte, 4096)
		for {
			n, err := r.Read(buf)
			sb.Write(buf[:n])
			if err != nil {
				break
			}
		}
		done <- sb.String()
	}()
	func() {
		defer func() { w.Close(); os.Stdout = old }()
		f()
	}()
	return <-done
}

func FSOps() int { return 1 << 30 }

func FSWrites(name string) int { return 0 }

func FSOthers() int {
	es, _ := os.ReadDir(fsdir())
	return len(es)
}

func runCase(c Case, fn func()) (res Result) {
	res = Result{ID: c.ID, Observed: map[string]string{}}
	defer func() {
		fsRestore()
		if fsDir != "" {
			os.RemoveAll(fsDir)
			fsDir = ""
		}
	}()
	cur = &state{c: c, res: &res, seen: map[string]int{}, obsN: map[string]int{}}
	defer func() {
		if p := recover(); p != nil {
			if _, ok := p.(assumeFailed); !ok {
				res.Panic = fmt.Sprint(p)
			}
		}
		cur = nil
	}()
	fn()
	return
}

// RunReplay runs the cases of $ZZVERIF_CASES and writes results to $ZZVERIF_OUT.
func RunReplay(t *testing.T, harnesses map[string]func()) {
	path := os.Getenv("ZZVERIF_CASES")
	if path == "" {
		t.Skip("no ZZVERIF_CASES")
	}
	data, err := os.ReadFile(path)
	if err != nil {
		t.Fatal(err)
	}
	var cases []Case
	if err := json.Unmarshal(data, &cases); err != nil {
		t.Fatal(err)
	}
	var results []Result
	for _, c := range cases {
		fn, ok := harnesses[c.Harness]
		if !ok {
			continue
		}
		res := runCase(c, fn)
		// outcomes that depend on Go's randomised map iteration order: try again a bounded number of
		// times until the recorded failure shows (violation / known-finding cases only)
		usesMapOrder := false
		for _, in := range c.Inputs {
			if strings.HasPrefix(in.Name, "maporder") || strings.HasPrefix(in.Name, "sched") {
				usesMapOrder = true // (or the completion order of the loader's goroutines)
			}
		}
		if usesMapOrder && !strings.HasPrefix(c.ID, "witness") {
			for try := 0; try < 80 && len(res.Failed) == 0 && len(res.Known) == 0 && res.Panic == ""; try++ {
				res = runCase(c, fn)
			}
		}
		results = append(results, res)
		if exitAfterCase {
			out, _ := json.MarshalIndent(results, "", " ")
			os.WriteFile(os.Getenv("ZZVERIF_OUT"), out, 0o644)
			os.Exit(3)
		}
	}
	out, _ := json.MarshalIndent(results, "", " ")
	if err := os.WriteFile(os.Getenv("ZZVERIF_OUT"), out, 0o644); err != nil {
		t.Fatal(err)
	}
}
